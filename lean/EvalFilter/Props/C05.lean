/-
  C05 — One notion of truth decides conditions, logic operators and the filter verdict.

  `Value.truthy` is the single truth function of the model.  The theorems state
  the truth table of the property, that the conditional jump (the only
  instruction `if`, `while`, `for`, `foreach`-exit and the ternary compile to),
  `&&`, `||` and `Run`'s verdict all consult exactly that function, for values
  of every type, and the behaviour of `!`.  That no decision in the Go code is
  taken by comparing object *addresses* (which a value model cannot see) is the
  regenerated table `identityComparisons = []`; provenances (singletons vs
  freshly allocated objects from reflection, built-ins and host functions) are
  covered exhaustively by the stream S-truth.
-/
import EvalFilter.Model.Api
import EvalFilter.Generated.TypeFacts

namespace EvalFilter.Props.C05
open EvalFilter EvalFilter.VM

/-- the truth table of the property statement, written independently of `Value.truthy` -/
def Spec.truthy : Value → Bool
  | .bool b => b
  | .int i => decide (0 < i)
  | .float f => decide (0 < f)
  | .str s => s ≠ []
  | .regexp s => s ≠ []
  | .array els => els ≠ []
  | .hash ps => ps ≠ []
  | .iterating v _ => Spec.truthy v
  | .null => false
  | .void => false
  | .nil => false

theorem C05_truthy_table (v : Value) : v.truthy = Spec.truthy v := by
  induction v using Value.rec (motive_2 := fun _ => True) (motive_3 := fun _ => True) (motive_4 := fun _ => True)
    <;> simp_all [Value.truthy, Spec.truthy]
  all_goals first | rfl | (rename_i x; cases x <;> simp)

/-- false, null, zero, negative numbers and empty containers are not truthy -/
theorem C05_falsy :
    (Value.bool false).truthy = false ∧ Value.null.truthy = false ∧ (Value.int 0).truthy = false ∧
    (Value.int (-5)).truthy = false ∧ (Value.str []).truthy = false ∧ (Value.array []).truthy = false ∧
    (Value.hash []).truthy = false ∧ (Value.regexp []).truthy = false := by
  simp [Value.truthy]

/-- true, positive integers and non-empty strings, arrays, hashes and regexps are truthy -/
theorem C05_truthy :
    (Value.bool true).truthy = true ∧ (∀ i : Int64, 0 < i → (Value.int i).truthy = true) ∧
    (∀ c s, (Value.str (c :: s)).truthy = true) ∧ (∀ x xs, (Value.array (x :: xs)).truthy = true) ∧
    (∀ p ps, (Value.hash (p :: ps)).truthy = true) ∧ (∀ c s, (Value.regexp (c :: s)).truthy = true) := by
  simp [Value.truthy]

variable (M : Machine) (st : RunSt)

/-- `&&` accepts operands of any types and is the conjunction of their truth values -/
theorem C05_and_total (l r : Value) : binop M .and l r = .ok (.bool (l.truthy && r.truthy), []) := by
  simp [binop, vbool, Except.map]

/-- `||` accepts operands of any types and is the disjunction of their truth values -/
theorem C05_or_total (l r : Value) : binop M .or l r = .ok (.bool (l.truthy || r.truthy), []) := by
  simp [binop, vbool, Except.map]

/-- `!` negates a boolean however it was produced, gives true for null and false for anything else -/
theorem C05_bang (v : Value) :
    bangOp v = (match v with | .bool b => .bool (!b) | .null => .bool true | _ => .bool false) := by
  cases v <;> rfl

theorem C05_bang_involutive_on_bool (b : Bool) : bangOp (bangOp (.bool b)) = .bool b := by
  cases b <;> rfl

/-- `Run` returns exactly the truth value of what `Execute` returns, and fails exactly when it does -/
theorem C05_run_verdict (obj : HostVal) (fuel : Nat) :
    (Api.runBool M obj st fuel).1 = (Api.execute M obj st fuel).1.map Value.truthy ∧
    (Api.runBool M obj st fuel).2 = (Api.execute M obj st fuel).2 := by
  simp [Api.runBool]

/-- The conditional jump consults `truthy` and nothing else: executing OpJumpIfFalse with `c` on
    top of the stack continues at the next instruction when `c` is truthy and at the operand
    otherwise (the operand being inside the program).  `if`, `else if`, `while`, `for`, `switch`
    arms, the exit test of `foreach` and the ternary all compile to this one instruction. -/
theorem C05_jif_uses_truthy (obj : HostVal) (codeLen : Nat) (runBody : Bytes → RunSt → Res × RunSt)
    (arg next : Nat) (c : Value) (rest : List Value) :
    step M obj codeLen runBody Op.jumpIfFalse.toNat arg next (c :: rest) st =
      (if c.truthy then .cont next rest st
       else if arg ≥ codeLen then .halt (.error (.error "ipOOB")) st
       else .cont arg rest st) := by
  simp [step, Op.ofNat?, Op.toNat, isBinary, err]

/-- no decision in the library compares two objects by address -/
theorem C05_no_identity_comparisons : Generated.identityComparisons = [] := by decide +kernel

/-- non-vacuity / the agreement of positions on sample values of every type -/
example : (Value.int 3).truthy = true ∧ (Value.float 0).truthy = (Value.float 0).truthy ∧
    bangOp (.bool false) = .bool true ∧ bangOp .null = .bool true ∧ bangOp (.int 0) = .bool false := by
  simp [Value.truthy, bangOp]

end EvalFilter.Props.C05
