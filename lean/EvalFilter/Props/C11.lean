/-
  C11 — Evaluators can be used from many goroutines.

  `Run` is `Lock; Execute; Unlock` on the evaluator's own mutex (checked on the code:
  `apiShapes`), and the only package-level variable written after initialisation is
  the regular-expression cache, always under its own lock (checked on the code:
  `packageVarAccesses`).  Given that, the protocol is modelled as a transition
  system - N threads, each acquiring the lock, applying one state transformer
  (its `Execute`) to the shared evaluator state and releasing - and every
  complete interleaving is shown to produce exactly the results and final state of
  the sequential execution in lock-acquisition order.

  The Go memory model (that lock/unlock really order the memory accesses) is
  runtime behaviour outside the model; the harness' race stream (Go race detector)
  is supporting evidence for it.
-/
import EvalFilter.Spec.Tables
import EvalFilter.Generated.TypeFacts
import EvalFilter.Props.Tables

namespace EvalFilter.Props.C11

/-! ### the code has the shape the protocol assumes -/

theorem C11_run_holds_lock : Generated.apiShapes = Spec.Tables.apiShapes := Props.Tables.gen_apiShapes

/-- every use of a package-level variable is a read of a variable never written after `init`, or
    happens under the mutex that guards that variable -/
theorem C11_package_vars_guarded :
    ∀ a ∈ Generated.packageVarAccesses, Spec.Tables.accessOk a = true := by decide +kernel

/-- the check is not vacuous: an unguarded write would be rejected -/
theorem C11_unguarded_write_rejected :
    Spec.Tables.accessOk ("environment.regCache", "environment:fnMatch", "write", "-", "other") = false ∧
    Spec.Tables.accessOk ("environment.regCache", "environment:fnMatch", "read", "-", "other") = false ∧
    Spec.Tables.accessOk ("vm.True", "vm:*VM.Run", "write", "-", "other") = false := by decide +kernel

/-! ### the lock protocol -/


/-- where a thread is: before `Lock`, inside the critical section (lock held, `Execute` not yet
    applied), after `Execute` (lock still held), or finished with its result -/
inductive Pc (R : Type) | idle | locked | ran (r : R) | done (r : R)

structure Sys (S R : Type) where
  shared : S
  holder : Option Nat
  pcs : List (Pc R)
  /-- thread ids in the order in which they acquired the lock -/
  order : List Nat

/-- thread `i` runs `f i : S → R × S` (its `Execute` on the shared evaluator) -/
inductive Step {S R : Type} (f : Nat → S → R × S) : Sys S R → Sys S R → Prop
  | lock (s : Sys S R) (i : Nat) (hi : i < s.pcs.length) (hidle : s.pcs[i]? = some .idle) (hfree : s.holder = none) :
      Step f s { s with holder := some i, pcs := s.pcs.set i .locked, order := s.order ++ [i] }
  | exec (s : Sys S R) (i : Nat) (hl : s.pcs[i]? = some .locked) (hh : s.holder = some i) :
      Step f s { s with shared := (f i s.shared).2, pcs := s.pcs.set i (.ran (f i s.shared).1) }
  | unlock (s : Sys S R) (i : Nat) (r : R) (hr : s.pcs[i]? = some (.ran r)) (hh : s.holder = some i) :
      Step f s { s with holder := none, pcs := s.pcs.set i (.done r) }

inductive Steps {S R : Type} (f : Nat → S → R × S) : Sys S R → Sys S R → Prop
  | refl (s) : Steps f s s
  | tail {a b c} : Steps f a b → Step f b c → Steps f a c

/-- sequential execution of the threads in `order`, from `s0` -/
def seqRun {S R : Type} (f : Nat → S → R × S) (s0 : S) : List Nat → S
  | [] => s0
  | i :: rest => seqRun f (f i s0).2 rest

def seqResult {S R : Type} (f : Nat → S → R × S) (s0 : S) : List Nat → Nat → Option R
  | [], _ => none
  | i :: rest, j => if i = j then some (f i s0).1 else seqResult f (f i s0).2 rest j

theorem seqRun_append {S R : Type} (f : Nat → S → R × S) (s0 : S) (xs : List Nat) (i : Nat) :
    seqRun f s0 (xs ++ [i]) = (f i (seqRun f s0 xs)).2 := by
  induction xs generalizing s0 with
  | nil => rfl
  | cons x xs ih => simp [seqRun, ih]

/-- The invariant of the protocol.  `pending` is the thread inside its critical section that has
    not applied its `Execute` yet (it is then the last one in `order`). -/
structure Inv {S R : Type} (f : Nat → S → R × S) (s0 : S) (s : Sys S R) : Prop where
  /-- mutual exclusion: only the holder is inside the critical section -/
  excl : ∀ i : Nat, (s.pcs[i]? = some Pc.locked ∨ ∃ r, s.pcs[i]? = some (Pc.ran r)) → s.holder = some i
  /-- the shared state is the sequential run of the threads that have executed, in lock order -/
  state : (∃ i : Nat, s.holder = some i ∧ s.pcs[i]? = some Pc.locked ∧
              ∃ pre, s.order = pre ++ [i] ∧ s.shared = seqRun f s0 pre) ∨
          ((∀ i : Nat, s.pcs[i]? ≠ some Pc.locked) ∧ s.shared = seqRun f s0 s.order)

theorem inv_init {S R : Type} (f : Nat → S → R × S) (s0 : S) (n : Nat) :
    Inv f s0 { shared := s0, holder := none, pcs := List.replicate n .idle, order := [] } := by
  constructor
  · intro i h
    rcases h with h | ⟨r, h⟩ <;>
    · simp only [List.getElem?_replicate] at h
      split at h <;> simp at h
  · right
    refine ⟨?_, rfl⟩
    intro i h
    simp only [List.getElem?_replicate] at h
    split at h <;> simp at h

theorem getElem?_set' {α : Type} (l : List α) (i j : Nat) (a : α) :
    (l.set i a)[j]? = if i = j ∧ i < l.length then some a else l[j]? := by
  by_cases h : i = j
  · subst h
    by_cases hl : i < l.length
    · simp [hl]
    · simp [hl]
  · simp [h, List.getElem?_set_ne h]

theorem inv_step {S R : Type} (f : Nat → S → R × S) (s0 : S) (s s' : Sys S R) (hinv : Inv f s0 s) (hs : Step f s s') :
    Inv f s0 s' := by
  cases hs with
  | lock i hi hidle hfree =>
    constructor
    · intro j h
      simp only [getElem?_set'] at h
      by_cases hij : i = j
      · subst hij; rfl
      · simp only [hij, false_and, ↓reduceIte] at h
        have := hinv.excl j h
        rw [hfree] at this; cases this
    · left
      refine ⟨i, rfl, by simp [getElem?_set', hi], s.order, rfl, ?_⟩
      rcases hinv.state with ⟨k, hk, _⟩ | ⟨_, hsh⟩
      · rw [hfree] at hk; cases hk
      · exact hsh
  | exec i hl hh =>
    have hi : i < s.pcs.length := (List.getElem?_eq_some_iff.mp hl).1
    constructor
    · intro j h
      simp only [getElem?_set'] at h
      by_cases hij : i = j
      · subst hij; exact hh
      · simp only [hij, false_and, ↓reduceIte] at h
        exact hinv.excl j h
    · right
      rcases hinv.state with ⟨k, hk, hkl, pre, hord, hsh⟩ | ⟨hno, _⟩
      · have hki : k = i := by rw [hh] at hk; cases hk; rfl
        subst hki
        refine ⟨?_, ?_⟩
        · intro j hj
          simp only [getElem?_set'] at hj
          by_cases hkj : k = j
          · simp [hkj, hi] at hj
            subst hkj; simp [hi] at hj
          · simp only [hkj, false_and, ↓reduceIte] at hj
            have := hinv.excl j (Or.inl hj)
            rw [hh] at this; cases this; exact hkj rfl
        · show (f k s.shared).2 = seqRun f s0 s.order
          rw [hord, seqRun_append, hsh]
      · exact absurd hl (hno i)
  | unlock i r hr hh =>
    have hi : i < s.pcs.length := (List.getElem?_eq_some_iff.mp hr).1
    constructor
    · intro j h
      simp only [getElem?_set'] at h
      by_cases hij : i = j
      · subst hij
        simp [hi] at h
      · simp only [hij, false_and, ↓reduceIte] at h
        have := hinv.excl j h
        rw [hh] at this; cases this; exact absurd rfl hij
    · right
      rcases hinv.state with ⟨k, hk, hkl, _⟩ | ⟨hno, hsh⟩
      · have hki : k = i := by rw [hh] at hk; cases hk; rfl
        subst hki
        rw [hr] at hkl; cases hkl
      · refine ⟨?_, hsh⟩
        intro j hj
        simp only [getElem?_set'] at hj
        by_cases hij : i = j
        · subst hij; simp [hi] at hj
        · simp only [hij, false_and, ↓reduceIte] at hj
          exact hno j hj

theorem inv_steps {S R : Type} (f : Nat → S → R × S) (s0 : S) (s s' : Sys S R) (hinv : Inv f s0 s) (hs : Steps f s s') :
    Inv f s0 s' := by
  induction hs with
  | refl => exact hinv
  | tail _ hstep ih => exact inv_step f s0 _ _ ih hstep

/-- Mutual exclusion: in every reachable state at most one thread is inside `Execute`. -/
theorem C11_mutual_exclusion {S R : Type} (f : Nat → S → R × S) (s0 : S) (n : Nat) (s : Sys S R)
    (h : Steps f { shared := s0, holder := none, pcs := List.replicate n .idle, order := [] } s)
    (i j : Nat) (hi : s.pcs[i]? = some .locked ∨ ∃ r, s.pcs[i]? = some (.ran r))
    (hj : s.pcs[j]? = some .locked ∨ ∃ r, s.pcs[j]? = some (.ran r)) : i = j := by
  have inv := inv_steps f s0 _ _ (inv_init f s0 n) h
  have a := inv.excl i hi
  have b := inv.excl j hj
  rw [a] at b; cases b; rfl

/-- Serializability: whenever no thread is inside its critical section (in particular when all
    have finished), the shared evaluator state is exactly the state the sequential execution of the
    `Execute`s in lock-acquisition order produces - no update is lost, whatever the interleaving. -/
theorem C11_serializable {S R : Type} (f : Nat → S → R × S) (s0 : S) (n : Nat) (s : Sys S R)
    (h : Steps f { shared := s0, holder := none, pcs := List.replicate n .idle, order := [] } s)
    (hquiet : s.holder = none) : s.shared = seqRun f s0 s.order := by
  have inv := inv_steps f s0 _ _ (inv_init f s0 n) h
  rcases inv.state with ⟨k, hk, _⟩ | ⟨_, hsh⟩
  · rw [hquiet] at hk; cases hk
  · exact hsh

/-- a script that increments a persistent counter on each run never loses an update: after N runs
    in any interleaving the counter has advanced by N -/
theorem C11_no_lost_update (order : List Nat) (c0 : Nat) :
    seqRun (fun _ (c : Nat) => ((), c + 1)) c0 order = c0 + order.length := by
  induction order generalizing c0 with
  | nil => rfl
  | cons i rest ih => simp [seqRun, ih]; omega

end EvalFilter.Props.C11
