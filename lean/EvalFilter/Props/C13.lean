/-
  C13 — A script that cannot be fully translated is rejected by Prepare.

  Theorems about the model parser / compiler for ALL token lists and trees (the
  "no matter how deeply nested" of the property is the induction over the parser's
  recursion, `Proofs/ParserClean.lean` and `Proofs/ParserBalance.lean`):

  * a token list containing an ILLEGAL token (unterminated string or regexp, illegal
    character, NUL, bad number) or a type-less token (lone `&`, `|`, `~`) anywhere before
    the end of input is rejected;
  * a token list whose brackets do not balance - in particular every truncation of a
    program that leaves a `(`, `[` or `{` open - is rejected;
  * in any parser state: assignment to anything but a variable, `local` outside a
    function, a ternary inside a ternary, a function without a name are refused by the
    parselet concerned, and every parselet fails when a sub-parse fails (the model is an
    `Option` parser; that the Go parser behaves like it is the correspondence check);
  * in any compiler state and at any offset: a compound assignment whose target is not a
    variable, an unknown operator, and a switch whose value does not compile (even when
    the switch has no case that would evaluate it) are compile errors;
  * which inputs make the lexer produce those ILLEGAL / type-less tokens.
-/
import EvalFilter.Model.Api
import EvalFilter.Proofs.ParserClean
import EvalFilter.Proofs.ParserBalance
import EvalFilter.Props.C12
import EvalFilter.Proofs.Lexer

namespace EvalFilter.Props.C13
open EvalFilter EvalFilter.Parser

/-! ### invalid tokens anywhere -/

/-- A token list with an ILLEGAL or type-less token anywhere before the end of input is rejected. -/
theorem C13_illegal_token_rejected (toks : List Token)
    (h : ∃ t ∈ toks.takeWhile (fun t => t.ty != .EOF), t.ty = .ILLEGAL ∨ t.ty = .NONE) :
    parse toks = none := by
  cases hp : parse toks with
  | none => rfl
  | some p =>
    obtain ⟨t, ht, hbad⟩ := h
    have := parse_no_illegal toks p hp t ht
    rcases hbad with hb | hb
    · exact absurd hb this.1
    · exact absurd hb this.2

/-- A token list whose brackets do not balance is rejected: every truncation of a program that
    leaves a bracket open, and every stray closing bracket, at whatever depth. -/
theorem C13_unbalanced_rejected (toks : List Token)
    (h : net (toks.takeWhile (fun t => t.ty != .EOF)) ≠ 0) : parse toks = none :=
  unbalanced_rejected toks h

/-- the same two facts at the level of `Prepare`: it fails, whatever the options, variables and functions -/
theorem C13_prepare_rejects (script : List Char) (optimize : Bool) (env : VM.Env) (fns : List (Str × VM.FnImpl))
    (done : Nat → Bool)
    (h : (∃ t ∈ (Lexer.lex script).takeWhile (fun t => t.ty != .EOF), t.ty = .ILLEGAL ∨ t.ty = .NONE) ∨
         net ((Lexer.lex script).takeWhile (fun t => t.ty != .EOF)) ≠ 0) :
    ∃ e, Api.prepare script optimize env fns done = .error e := by
  have hp : parse (Lexer.lex script) = none := by
    rcases h with h | h
    · exact C13_illegal_token_rejected _ h
    · exact C13_unbalanced_rejected _ h
  exact ⟨.parse, by simp [Api.prepare, hp]⟩

/-- the hypotheses are satisfiable and the theorems are not vacuous: concrete scripts -/
theorem C13_examples :
    (∃ t ∈ (Lexer.lex "if (a) { x = \"abc; }".toList).takeWhile (fun t => t.ty != .EOF), t.ty = .ILLEGAL ∨ t.ty = .NONE) ∧
    (∃ t ∈ (Lexer.lex "if (a) { x = [1, f(2 & 3)]; }".toList).takeWhile (fun t => t.ty != .EOF), t.ty = .ILLEGAL ∨ t.ty = .NONE) ∧
    net ((Lexer.lex "while (a) { if (b) { x = [1, 2; } }".toList).takeWhile (fun t => t.ty != .EOF)) ≠ 0 ∧
    net ((Lexer.lex "while (a) { if (b) { x = [1, 2]; } }".toList).takeWhile (fun t => t.ty != .EOF)) = 0 ∧
    (parse (Lexer.lex "while (a) { if (b) { x = [1, 2]; } }".toList)).isSome = true := by
  decide +kernel

/-! ### from the text: wherever the lexer meets something it cannot read, Prepare fails -/

/-- **If, anywhere in the script, the lexer produces an ILLEGAL or type-less token, Prepare fails.**
    `Lexer.Reach script s` are the states the lexer passes through; the token it produces in any of them
    is in the stream, before the end-of-input token, so the parser cannot step over it. -/
theorem C13_bad_token_anywhere (script : List Char) (s : Lexer.LexSt) (hr : Lexer.Reach script s) (hne : s.rest ≠ [])
    (hbad : (Lexer.nextToken s).1.ty = .ILLEGAL ∨ (Lexer.nextToken s).1.ty = .NONE)
    (optimize : Bool) (env : VM.Env) (fns : List (Str × VM.FnImpl)) (done : Nat → Bool) :
    ∃ e, Api.prepare script optimize env fns done = .error e :=
  C13_prepare_rejects script optimize env fns done
    (Or.inl ⟨_, Lexer.lex_bad_token_before_eof script _ (Lexer.reach_token_mem script s hr hne) hbad, hbad⟩)

/-- the end-of-input token comes last in the stream and only there: nothing after it is ever ignored -/
theorem C13_eof_only_last (script : List Char) :
    (∀ t ∈ (Lexer.lex script).dropLast, t.ty ≠ .EOF) ∧ ∃ ts e, Lexer.lex script = ts ++ [e] ∧ e.ty = .EOF :=
  ⟨Lexer.lexAll_init_ne_eof _, Lexer.lexAll_last_eof _⟩

/-! ### what makes the lexer produce such tokens -/

/-- a quote that is never closed yields an ILLEGAL token -/
theorem C13_unterminated_string (prev : TokType) (q : Char) (hq : q = '"' ∨ q = '\'') (cs : List Char)
    (h : (Lexer.readString q cs []).1 = none) : (Lexer.lexOne prev q cs).1.ty = .ILLEGAL := by
  rcases hq with rfl | rfl
  · simp only [Lexer.lexOne, Lexer.lexB, Lexer.lexC]
    simp only [show (('"' : Char) == '&') = false by decide, show (('"' : Char) == '|') = false by decide,
      show (('"' : Char) == '=') = false by decide, show (('"' : Char) == ';') = false by decide,
      show (('"' : Char) == '(') = false by decide, show (('"' : Char) == ')') = false by decide,
      show (('"' : Char) == ',') = false by decide, show (('"' : Char) == '.') = false by decide,
      show (('"' : Char) == '+') = false by decide, show (('"' : Char) == '%') = false by decide,
      show (('"' : Char) == '√') = false by decide, show (('"' : Char) == '{') = false by decide,
      show (('"' : Char) == '}') = false by decide, show (('"' : Char) == '[') = false by decide,
      show (('"' : Char) == ']') = false by decide, show (('"' : Char) == '-') = false by decide,
      show (('"' : Char) == '/') = false by decide, show (('"' : Char) == '*') = false by decide,
      show (('"' : Char) == '?') = false by decide, show (('"' : Char) == ':') = false by decide,
      show (('"' : Char) == '<') = false by decide, show (('"' : Char) == '>') = false by decide,
      show (('"' : Char) == '~') = false by decide, show (('"' : Char) == '!') = false by decide,
      show (('"' : Char) == '"') = true by decide, Bool.false_eq_true, ↓reduceIte, Bool.true_or]
    cases hr : Lexer.readString '"' cs [] with
    | mk a b => rw [hr] at h; simp at h; subst h; rfl
  · simp only [Lexer.lexOne, Lexer.lexB, Lexer.lexC]
    simp only [show (('\'' : Char) == '&') = false by decide, show (('\'' : Char) == '|') = false by decide,
      show (('\'' : Char) == '=') = false by decide, show (('\'' : Char) == ';') = false by decide,
      show (('\'' : Char) == '(') = false by decide, show (('\'' : Char) == ')') = false by decide,
      show (('\'' : Char) == ',') = false by decide, show (('\'' : Char) == '.') = false by decide,
      show (('\'' : Char) == '+') = false by decide, show (('\'' : Char) == '%') = false by decide,
      show (('\'' : Char) == '√') = false by decide, show (('\'' : Char) == '{') = false by decide,
      show (('\'' : Char) == '}') = false by decide, show (('\'' : Char) == '[') = false by decide,
      show (('\'' : Char) == ']') = false by decide, show (('\'' : Char) == '-') = false by decide,
      show (('\'' : Char) == '/') = false by decide, show (('\'' : Char) == '*') = false by decide,
      show (('\'' : Char) == '?') = false by decide, show (('\'' : Char) == ':') = false by decide,
      show (('\'' : Char) == '<') = false by decide, show (('\'' : Char) == '>') = false by decide,
      show (('\'' : Char) == '~') = false by decide, show (('\'' : Char) == '!') = false by decide,
      show (('\'' : Char) == '"') = false by decide, show (('\'' : Char) == '\'') = true by decide,
      Bool.false_eq_true, ↓reduceIte, Bool.or_true]
    cases hr : Lexer.readString '\'' cs [] with
    | mk a b => rw [hr] at h; simp at h; subst h; rfl

/-- a `/` in regexp position whose pattern never ends, or whose flags are not `i`/`m`, yields ILLEGAL -/
theorem C13_bad_regexp (prev : TokType) (cs : List Char) (hprev : Lexer.slashDivAfter.contains prev = false)
    (e : Lexer.RegexpErr) (h : (Lexer.readRegexp cs []).1 = .error e) :
    (Lexer.lexB prev '/' cs).1.ty = .ILLEGAL := by
  simp only [Lexer.lexB]
  simp only [show (('/' : Char) == '%') = false by decide, show (('/' : Char) == '√') = false by decide,
    show (('/' : Char) == '{') = false by decide, show (('/' : Char) == '}') = false by decide,
    show (('/' : Char) == '[') = false by decide, show (('/' : Char) == ']') = false by decide,
    show (('/' : Char) == '-') = false by decide, show (('/' : Char) == '/') = true by decide,
    Bool.false_eq_true, ↓reduceIte, hprev]
  cases hr : Lexer.readRegexp cs [] with
  | mk a b => rw [hr] at h; simp at h; subst h; rfl

/-- a lone `&`, `|` or `~` yields a type-less token -/
theorem C13_lone_operator (prev : TokType) (cs : List Char) :
    (∀ d rest, cs = d :: rest → d ≠ '&') → (Lexer.lexOne prev '&' cs).1.ty = .NONE := by
  intro h
  simp only [Lexer.lexOne, show (('&' : Char) == '&') = true by decide, ↓reduceIte, Lexer.two]
  cases cs with
  | nil => rfl
  | cons d rest =>
    have := h d rest rfl
    simp [this]

/-- a character that starts no token (not a digit, not an identifier character, not an operator)
    yields ILLEGAL -/
theorem C13_illegal_character (prev : TokType) (c : Char) (cs : List Char)
    (hd : Lexer.isDigit c = false) (hi : Lexer.isIdentifier c = false) :
    (Lexer.lexWord prev c cs).1.ty = .ILLEGAL := by
  simp [Lexer.lexWord, hd, Lexer.spanChars, hi]

/-! ### refusals in any parser state -/

/-- assignment to anything but a variable -/
theorem C13_assign_target (fuel : Nat) (left : Expr) (s : PState) (h : ∀ n, left ≠ .ident n) :
    parseInfix fuel .assign left s = none := by
  cases fuel with
  | zero => rfl
  | succ n =>
    simp only [parseInfix]

/-- `local` outside a function -/
theorem C13_local_outside_function (fuel : Nat) (s : PState) (h : s.func = false) :
    parsePrefix fuel .localV s = none := by
  cases fuel with
  | zero => rfl
  | succ n => simp [parsePrefix, h]

/-- a ternary inside a ternary -/
theorem C13_nested_ternary (fuel : Nat) (left : Expr) (s : PState) (h : s.tern = true) :
    parseInfix fuel .ternary left s = none := C12.C12_nested_ternary_rejected fuel left s h

/-- the token that ends the input, and ILLEGAL tokens, start no expression -/
theorem C13_no_operand (fuel : Nat) (prec : Nat) (s : PState)
    (h : s.cur.ty = .EOF ∨ s.cur.ty = .ILLEGAL ∨ prefixFn s.cur.ty = none) (hp : isPostfix s.cur.ty = false) :
    parseExpression fuel prec s = none := by
  cases fuel with
  | zero => rfl
  | succ n =>
    simp only [parseExpression]
    split
    · rfl
    · have hp' : isPostfix (PState.cur { toks := s.toks, prev := s.prev, tern := s.tern, func := s.func, depth := s.depth + 1 }).ty = false := hp
      simp only [hp', Bool.false_eq_true, ↓reduceIte]
      have hc : (PState.cur { toks := s.toks, prev := s.prev, tern := s.tern, func := s.func, depth := s.depth + 1 }) = s.cur := rfl
      rw [hc]
      rcases h with h | h | h
      · rw [h]; simp only [prefixFn]; cases n <;> simp [parsePrefix]
      · rw [h]; simp only [prefixFn]; cases n <;> simp [parsePrefix]
      · rw [h]

/-- a missing closing token: `expectPeek` fails in any state whose next token is another one -/
theorem C13_missing_token (s : PState) (t : TokType) (h : s.peek.ty ≠ t) : s.expectPeek t = none := by
  simp [PState.expectPeek, PState.peekIs, h]

/-! ### refusals in any compiler state -/

open Compiler in
/-- a compound assignment whose target is not a variable never compiles, at any offset and with any
    constant pool / function table (if an operand fails first, that is the error) -/
theorem C13_compound_target (op : Str) (l r : Expr) (base : Nat) (st : CState)
    (hop : isCompound op = true) (hl : ∀ n, l ≠ .ident n) :
    ∃ e, compileExpr (.infix op l r) base st = .error e := by
  simp only [compileExpr, hop, ↓reduceIte, bind, Except.bind]
  cases compileExpr l base st with
  | error e => exact ⟨e, rfl⟩
  | ok a =>
    simp only []
    cases compileExpr r (base + l.size) a.2 with
    | error e => exact ⟨e, rfl⟩
    | ok b =>
      simp only []
      split
      · rename_i heq _
        rename_i name _
        first | exact absurd rfl (hl name) | (cases heq)
      · exact ⟨_, rfl⟩

open Compiler in
/-- the value of a switch is compiled even when no case would evaluate it: if it does not compile,
    neither does the switch -/
theorem C13_switch_value (v : Expr) (cs : List Case) (base : Nat) (st : CState) (e : CErr)
    (hcs : Case.hasTest cs = false) (hv : compileExpr v base st = .error e) :
    compileExpr (.switchE v cs) base st = .error e := by
  simp [compileExpr, hcs, hv, bind, Except.bind]

/-- compile errors reach `Prepare`'s caller -/
theorem C13_compile_error_rejected (script : List Char) (optimize : Bool) (env : VM.Env)
    (fns : List (Str × VM.FnImpl)) (done : Nat → Bool) (ast : Program) (e : Compiler.CErr)
    (hp : parse (Lexer.lex script) = some ast) (hc : Compiler.compileProgram ast = .error e) :
    Api.prepare script optimize env fns done = .error (.compile e) := by
  simp [Api.prepare, hp, hc]

/-- does `Prepare` reject the script (parse error or compile error)? -/
def rejects (script : String) : Bool :=
  match parse (Lexer.lex script.toList) with
  | none => true
  | some ast => match Compiler.compileProgram ast with
    | .error _ => true
    | .ok _ => false

/-- invalid fragments deep inside valid constructs (parse-level and compile-level), and their valid twins -/
theorem C13_compile_examples :
    rejects "if (a) { foreach x in xs { y = [1, 3 += 1]; } }" = true ∧
    rejects "function f() { switch ( 3 += 1 ) { default { return 1; } } }" = true ∧
    rejects "function f() { switch ( 3 + 1 ) { default { return 1; } } }" = false ∧
    rejects "if (a) { foreach x in xs { y = [1, z += 1]; } }" = false ∧
    rejects "if (a) { x = true ? (b ? 1 : 2) : 3; }" = true ∧
    rejects "while (a) { local x; }" = true ∧
    rejects "function f() { while (a) { local x; } }" = false := by
  decide +kernel

end EvalFilter.Props.C13
