/-
  C15 — Numbers, strings and booleans are values, not shared cells.

  The model has value semantics by construction; the theorems state what that means
  for `++`/`--`/compound assignment (they change the named variable and nothing
  else) and for literals (OpPush/OpConstant produce the same value whatever
  happened before).  That the Go code mutates no object that is reachable from two
  places is the tie: the regenerated table of in-place mutation sites equals the
  audited list (iteration offsets of a loop's private copy; Increase/Decrease, which
  OpInc/OpDec apply to a fresh copy), and the S-alias stream.
-/
import EvalFilter.Props.C06
import EvalFilter.Proofs.StmtCorrect

namespace EvalFilter.Props.C15
open EvalFilter EvalFilter.VM EvalFilter.Props.C06

/-- updating the innermost binding of `name` leaves every other name's binding alone -/
theorem updateInnermost_other (ss ss' : List Scope) (name other : Str) (v : Value) (h : other ≠ name)
    (hu : Env.updateInnermost ss name v = some ss') :
    ss'.reverse.findSome? (fun s => s.lookup other) = ss.reverse.findSome? (fun s => s.lookup other) := by
  induction ss generalizing ss' with
  | nil => simp [Env.updateInnermost] at hu
  | cons s rest ih =>
    simp only [Env.updateInnermost] at hu
    split at hu
    · rename_i rest' hr
      cases hu
      simp only [List.reverse_cons, List.findSome?_append, ih rest' hr]
    · split at hu
      · cases hu
        simp only [List.reverse_cons, List.findSome?_append, List.findSome?_cons, List.findSome?_nil,
          lookup_setAssoc_other _ _ _ _ h]
      · cases hu

/-- An assignment (and therefore `x++`, `x--`, `x += e` …, which all end in an assignment to x)
    changes the variable x and nothing else: every other name reads as before. -/
theorem C15_set_only_target (e : Env) (name other : Str) (v : Value) (h : other ≠ name) :
    (e.set name v).get other = e.get other := by
  unfold Env.set
  split
  · rename_i sc hu
    simp only [Env.get, Env.isLocal]
    rw [updateInnermost_other e.scopes sc name other v h hu]
  · simp only [Env.get, Env.isLocal, lookup_setAssoc_other _ _ _ _ h]

open EvalFilter.Exec EvalFilter.Compiler in
/-- **A compound assignment `x op= e` changes `x` and nothing else** (end to end: this is the outcome the
    compiled code produces, by `C02_program_correct`): if it completes, the environment is the old one with
    `x` set to `x op e`; every other variable reads as before. -/
theorem C15_compound_assignment (M : Machine) (F : FnTable) (obj : HostVal) (depth f : Nat) (op : Str) (name : Str) (r : Expr)
    (env env' : Env) (out out' : Str)
    (h : execE M F obj depth (f + 1) (.infix op (.ident name) r) env out = .normal env' out') :
    (∃ v, env' = env.set name v) ∧ ∀ other, other ≠ name → env'.get other = env.get other := by
  simp only [execE] at h
  cases hco : compoundOp op with
  | none => simp [hco] at h
  | some o =>
    simp only [hco] at h
    cases hl : evalE M obj env (.ident name) out with
    | mk res o1 =>
      cases res with
      | error y => simp only [hl, failE] at h; split at h <;> cases h
      | ok lv =>
        simp only [hl] at h
        cases hr : evalE M obj env r o1 with
        | mk res2 o2 =>
          cases res2 with
          | error y => simp only [hr, failE] at h; split at h <;> cases h
          | ok rv =>
            simp only [hr] at h
            cases hb : binop M o lv rv with
            | error y => simp [hb] at h
            | ok p =>
              simp only [hb, Outcome.normal.injEq] at h
              obtain ⟨rfl, _⟩ := h
              exact ⟨⟨p.1, rfl⟩, fun other ho => C15_set_only_target env name other p.1 ho⟩


open EvalFilter.Exec in
/-- **`x++` / `x--` change `x` and nothing else** (end to end: `C02_incdec_semantics` is what the compiled
    code does): the new environment is the old one with `x` set to a fresh value one more or less; every
    other variable reads as before; a non-number is an error and changes nothing -/
theorem C15_incdec_only_target (obj : HostVal) (env env' : Env) (name : Str) (inc : Bool)
    (h : incDecEnv obj env name inc = .ok env') :
    (∃ v, env' = env.set name v ∧
      ((∃ i, lookup obj env name = .ok (.int i) ∧ v = .int (if inc then i + 1 else i - 1)) ∨
       (∃ x, lookup obj env name = .ok (.float x) ∧ v = .float (if inc then x + 1 else x - 1)))) ∧
    ∀ other, other ≠ name → env'.get other = env.get other := by
  unfold incDecEnv at h
  cases hl : lookup obj env name with
  | error e => simp [hl] at h
  | ok v =>
    cases v <;> simp only [hl, Except.ok.injEq, reduceCtorEq] at h
    case int i =>
      subst h
      exact ⟨⟨_, rfl, Or.inl ⟨i, rfl, rfl⟩⟩, fun other ho => C15_set_only_target env name other _ ho⟩
    case float x =>
      subst h
      exact ⟨⟨_, rfl, Or.inr ⟨x, rfl, rfl⟩⟩, fun other ho => C15_set_only_target env name other _ ho⟩

/-- `x++` on an integer variable: the new state is the old one with x := x + 1 (a fresh value), the
    looked-up value is dropped from the stack; nothing else changes. -/
theorem C15_inc_step (M : Machine) (obj : HostVal) (codeLen : Nat) (runBody : Bytes → RunSt → Res × RunSt)
    (arg next : Nat) (top : Value) (rest : List Value) (st : RunSt) (c : Value) (i : Int64)
    (hc : M.consts[arg]? = some c) (hv : lookup obj st.env c.inspect = .ok (.int i)) :
    step M obj codeLen runBody Op.inc.toNat arg next (top :: rest) st =
      .cont next rest { st with env := st.env.set c.inspect (.int (i + 1)) } := by
  simp [step, Op.ofNat?, Op.toNat, isBinary, hc, hv]

theorem C15_dec_step_float (M : Machine) (obj : HostVal) (codeLen : Nat) (runBody : Bytes → RunSt → Res × RunSt)
    (arg next : Nat) (top : Value) (rest : List Value) (st : RunSt) (c : Value) (f : Float)
    (hc : M.consts[arg]? = some c) (hv : lookup obj st.env c.inspect = .ok (.float f)) :
    step M obj codeLen runBody Op.dec.toNat arg next (top :: rest) st =
      .cont next rest { st with env := st.env.set c.inspect (.float (f - 1)) } := by
  simp [step, Op.ofNat?, Op.toNat, isBinary, hc, hv]

/-- A literal denotes the same value every time it is evaluated, in every iteration and every run:
    OpConstant pushes the constant whatever the state, and leaves the state (and the pool, which a
    step cannot even mention) alone. -/
theorem C15_literal_stable (M : Machine) (obj : HostVal) (codeLen : Nat) (runBody : Bytes → RunSt → Res × RunSt)
    (arg next : Nat) (stack : List Value) (st : RunSt) (c : Value) (hc : M.consts[arg]? = some c) :
    step M obj codeLen runBody Op.constant.toNat arg next stack st = .cont next (c :: stack) st := by
  simp [step, Op.ofNat?, Op.toNat, isBinary, hc]

theorem C15_inline_literal_stable (M : Machine) (obj : HostVal) (codeLen : Nat)
    (runBody : Bytes → RunSt → Res × RunSt) (arg next : Nat) (stack : List Value) (st : RunSt) :
    step M obj codeLen runBody Op.push.toNat arg next stack st = .cont next (.int (Int64.ofNat arg) :: stack) st := by
  simp [step, Op.ofNat?, Op.toNat, isBinary]

/-- the only in-place writes to objects in the library are the audited ones -/
theorem C15_mutation_sites_audited : Generated.mutationSites = Spec.Tables.mutationSites :=
  Props.Tables.gen_mutationSites

example : (({ globals := [("a".toList, .int 1), ("b".toList, .int 1)] } : Env).set "b".toList (.int 2)).get "a".toList
    = some (.int 1) := by
  rw [C15_set_only_target _ _ _ _ (by decide)]; rfl

end EvalFilter.Props.C15
