/-
  C02 — Control flow runs exactly the statements the language selects, in order.

  What is proved here, for ALL programs / values / states:
    * LABELS.  For every `if`, `if/else`, `while`, `foreach`, ternary and `switch` arm, whatever the
      sub-trees are and wherever the code is placed: the conditional jump lands exactly on the first
      instruction after the skipped block, the jump at the end of a taken block lands exactly on the
      join placeholder, and a loop's back jump lands exactly on the first instruction of the loop test
      (consequences of `compileExpr_size`: emitted code has exactly the computed size; and of
      `compileExpr_closed`: every jump of every tree lands on an instruction start);
    * OPCODES.  What the VM does for the control instructions: OpJumpIfFalse falls through exactly when
      the popped value is truthy (C05's truth) and otherwise continues at its operand; OpJump continues at
      its operand; OpReturn ends the run at once with the value on top; running past the last instruction
      yields null; OpCase is true exactly for same type and same text, else the regexp match for a
      regexp case, else false; OpPlaceholder/OpNop do nothing;
    * ITERATION.  `foreach` state lives in an `iterating v off` value: one OpIterationNext on offset
      `off < n` binds element `off` (and its index/key), pushes true and leaves `off+1`; on `off = n`
      it closes the loop scope, drops the iterator and pushes false.  Arrays yield their elements in
      order with indexes 0,1,…; strings their characters; hashes their entries in the fixed key
      order; so a loop visits every element exactly once, in order.
  Not proved: the end-to-end simulation "compiled program = big-step semantics of the tree" (the
  correspondence streams S-ctl-templates / S-ctl enumerate constructs x nestings x branch outcomes x
  iterable shapes against the model, with host-call traces and variables compared).
-/
import EvalFilter.Model.Api
import EvalFilter.Proofs.CompJumps
import EvalFilter.Proofs.ExprCorrect
import EvalFilter.Proofs.StmtCorrect
import EvalFilter.Proofs.FnDefs3
import EvalFilter.Proofs.FnDefs4

set_option linter.unusedSimpArgs false

namespace EvalFilter.Props.C02
open EvalFilter EvalFilter.VM EvalFilter.Compiler

/-! ### labels -/

/-- `if (c) { cons }`: the conditional jump lands on the join placeholder right after the block -/
theorem C02_if_labels (c : Expr) (cons : List Stmt) (base : Nat) (st : CState) (r : List Instr × CState)
    (h : compileExpr (.ifE c cons none) base st = .ok r) :
    ∃ cc ca, r.1 = cc ++ [⟨.jumpIfFalse, base + codeSize (cc ++ [⟨.jumpIfFalse, 0⟩] ++ ca)⟩] ++ ca ++ [⟨.placeholder, 0⟩] := by
  simp only [compileExpr, bind_ok_eq, pure, Except.pure] at h
  obtain ⟨⟨cc, st1⟩, h1, ⟨ca, st2⟩, h2, h3⟩ := h
  have s1 := compileExpr_size c base st _ h1
  have s2 := compileStmts_size cons _ _ _ h2
  cases h3
  refine ⟨cc, ca, ?_⟩
  simp only at s1 s2
  simp [codeSize_append, s1, s2, Instr.size, Op.length]
  omega

/-- `if (c) { cons } else { alt }`: the conditional jump lands on the first instruction of the else
    block, the jump that ends the consequence lands on the join placeholder after the else block -/
theorem C02_if_else_labels (c : Expr) (cons alt : List Stmt) (base : Nat) (st : CState) (r : List Instr × CState)
    (h : compileExpr (.ifE c cons (some alt)) base st = .ok r) :
    ∃ cc ca cb, r.1 = cc ++ [⟨.jumpIfFalse, base + codeSize (cc ++ [⟨.jumpIfFalse, 0⟩] ++ ca ++ [⟨.jump, 0⟩])⟩] ++ ca ++
        [⟨.jump, base + codeSize (cc ++ [⟨.jumpIfFalse, 0⟩] ++ ca ++ [⟨.jump, 0⟩] ++ cb)⟩] ++ cb ++ [⟨.placeholder, 0⟩] := by
  simp only [compileExpr, bind_ok_eq, pure, Except.pure] at h
  obtain ⟨⟨cc, st1⟩, h1, ⟨ca, st2⟩, h2, ⟨cb, st3⟩, h4, h5⟩ := h
  have s1 := compileExpr_size c base st _ h1
  have s2 := compileStmts_size cons _ _ _ h2
  have s3 := compileStmts_size alt _ _ _ h4
  cases h5
  refine ⟨cc, ca, cb, ?_⟩
  simp only at s1 s2 s3
  simp [codeSize_append, s1, s2, s3, Instr.size, Op.length]
  omega

/-- `while (c) { body }`: the exit jump lands on the placeholder after the back jump; the back jump
    lands on the first instruction of the condition -/
theorem C02_while_labels (c : Expr) (body : List Stmt) (base : Nat) (st : CState) (r : List Instr × CState)
    (h : compileExpr (.whileE c body) base st = .ok r) :
    ∃ cc cb, r.1 = cc ++ [⟨.jumpIfFalse, base + codeSize (cc ++ [⟨.jumpIfFalse, 0⟩] ++ cb ++ [⟨.jump, 0⟩])⟩] ++ cb ++
        [⟨.jump, base⟩, ⟨.placeholder, 0⟩] := by
  simp only [compileExpr, bind_ok_eq, pure, Except.pure] at h
  obtain ⟨⟨cc, st1⟩, h1, ⟨cb, st2⟩, h2, h3⟩ := h
  have s1 := compileExpr_size c base st _ h1
  have s2 := compileStmts_size body _ _ _ h2
  cases h3
  refine ⟨cc, cb, ?_⟩
  simp only at s1 s2
  simp [codeSize_append, s1, s2, Instr.size, Op.length]
  omega

/-- `foreach idx, x in v { body }`: the iterable is evaluated once, OpIterationReset opens the loop; the
    back jump lands on the two name constants that precede OpIterationNext; the exit jump lands on the
    placeholder after the back jump -/
theorem C02_foreach_labels (idx x : Str) (v : Expr) (body : List Stmt) (base : Nat) (st : CState)
    (r : List Instr × CState) (h : compileExpr (.foreachE idx x v body) base st = .ok r) :
    ∃ cv ki kx cb, ki.op = .constant ∧ kx.op = .constant ∧
      r.1 = cv ++ [⟨.iterationReset, 0⟩, ki, kx, ⟨.iterationNext, 0⟩,
              ⟨.jumpIfFalse, base + codeSize (cv ++ [⟨.iterationReset, 0⟩, ki, kx, ⟨.iterationNext, 0⟩, ⟨.jumpIfFalse, 0⟩] ++ cb ++ [⟨.jump, 0⟩])⟩]
            ++ cb ++ [⟨.jump, base + codeSize (cv ++ [⟨.iterationReset, 0⟩])⟩, ⟨.placeholder, 0⟩] := by
  simp only [compileExpr, bind_ok_eq, pure, Except.pure] at h
  obtain ⟨⟨cv, st1⟩, h1, ⟨cb, st2⟩, h2, h3⟩ := h
  have s1 := compileExpr_size v base st _ h1
  have s2 := compileStmts_size body _ _ _ h2
  cases h3
  refine ⟨cv, (withConst st1 .constant (.str idx)).1, (withConst (withConst st1 .constant (.str idx)).2 .constant (.str x)).1, cb, rfl, rfl, ?_⟩
  simp only at s1 s2
  simp [codeSize_append, s1, s2, Instr.size, Op.length, withConst_op]
  omega

/-- `c ? t : f`: the conditional jump lands on the first instruction of `f`, the jump after `t` on the
    join placeholder -/
theorem C02_ternary_labels (c t f : Expr) (base : Nat) (st : CState) (r : List Instr × CState)
    (h : compileExpr (.ternary c t f) base st = .ok r) :
    ∃ cc ct cf, r.1 = cc ++ [⟨.jumpIfFalse, base + codeSize (cc ++ [⟨.jumpIfFalse, 0⟩] ++ ct ++ [⟨.jump, 0⟩])⟩] ++ ct ++
        [⟨.jump, base + codeSize (cc ++ [⟨.jumpIfFalse, 0⟩] ++ ct ++ [⟨.jump, 0⟩] ++ cf)⟩] ++ cf ++ [⟨.placeholder, 0⟩] := by
  simp only [compileExpr, bind_ok_eq, pure, Except.pure] at h
  obtain ⟨⟨cc, st1⟩, h1, ⟨ct, st2⟩, h2, ⟨cf, st3⟩, h3, h4⟩ := h
  have s1 := compileExpr_size c base st _ h1
  have s2 := compileExpr_size t _ _ _ h2
  have s3 := compileExpr_size f _ _ _ h3
  cases h4
  refine ⟨cc, ct, cf, ?_⟩
  simp only at s1 s2 s3
  simp [codeSize_append, s1, s2, s3, Instr.size, Op.length]
  omega

/-- every jump of every compiled tree lands on an instruction start of that tree's code -/
theorem C02_all_jumps_land_on_instructions (e : Expr) (base : Nat) (st : CState) (r : List Instr × CState)
    (h : compileExpr e base st = .ok r) : Closed base r.1 := compileExpr_closed e base st r h

/-! ### the control opcodes -/

variable (M : Machine) (obj : HostVal) (codeLen : Nat) (runBody : Bytes → RunSt → Res × RunSt)

/-- OpJumpIfFalse: pops the condition; truthy → next instruction, otherwise → the operand -/
theorem C02_jumpIfFalse (arg next : Nat) (c : Value) (rest : List Value) (st : RunSt) (harg : arg < codeLen) :
    step M obj codeLen runBody Op.jumpIfFalse.toNat arg next (c :: rest) st =
      .cont (if c.truthy then next else arg) rest st := by
  have : Op.ofNat? Op.jumpIfFalse.toNat = some .jumpIfFalse := rfl
  have hn : ¬ arg ≥ codeLen := by omega
  simp only [step, this, isBinary]
  by_cases hc : c.truthy = true <;> simp [hc, hn]

/-- OpJump: continues at its operand, stack untouched -/
theorem C02_jump (arg next : Nat) (stack : List Value) (st : RunSt) (harg : arg < codeLen) :
    step M obj codeLen runBody Op.jump.toNat arg next stack st = .cont arg stack st := by
  have : Op.ofNat? Op.jump.toNat = some .jump := rfl
  have hn : ¬ arg ≥ codeLen := by omega
  simp only [step, this, isBinary]
  simp [hn]

/-- OpReturn: the run ends at once with the value on top of the stack -/
theorem C02_return (arg next : Nat) (v : Value) (rest : List Value) (st : RunSt) :
    step M obj codeLen runBody Op.return.toNat arg next (v :: rest) st = .halt (.ok v) st := by
  have : Op.ofNat? Op.return.toNat = some .return := rfl
  simp only [step, this, isBinary]
  simp

/-- join placeholders do nothing -/
theorem C02_placeholder (arg next : Nat) (stack : List Value) (st : RunSt) :
    step M obj codeLen runBody Op.placeholder.toNat arg next stack st = .cont next stack st := by
  have : Op.ofNat? Op.placeholder.toNat = some .placeholder := rfl
  simp only [step, this, isBinary]
  simp

/-- running past the last instruction yields null -/
theorem C02_run_off_the_end (code : Bytes) (fuel : Nat) (ip : Nat) (stack : List Value) (st : RunSt)
    (h : ip ≥ code.length) : loop M obj code (fuel + 1) ip stack st = (.ok .null, st) := by
  simp [loop, h]

/-- OpCase: true for same type and same text; else the regexp match if the case is a regexp; else false -/
theorem C02_case (arg next : Nat) (caseVal val : Value) (rest : List Value) (st : RunSt) :
    step M obj codeLen runBody Op.case.toNat arg next (caseVal :: val :: rest) st =
      (if sameTypeAndText val caseVal then .cont next (.bool true :: rest) st
       else if caseVal.isType .REGEXP then
         (match callMatch M val caseVal with
          | .error e => .halt (.error e) st
          | .ok (v, o) => .cont next (v :: rest) { st with out := st.out ++ o })
       else .cont next (.bool false :: rest) st) := by
  have : Op.ofNat? Op.case.toNat = some .case := rfl
  simp only [step, this, isBinary]
  simp only [Bool.false_eq_true, ↓reduceIte]
  split <;> (try split) <;> rfl

/-! ### iteration -/

/-- the elements a foreach over `v` visits, with their index or key, in order -/
def visits : Value → List (Value × Value)
  | .array els => (List.range els.length).map (fun k => (els.getD k .null, .int (Int64.ofNat k)))
  | .str s => (List.range s.length).map (fun k => (.str [s.getD k ' '], .int (Int64.ofNat k)))
  | .hash ps => (HashMapModel.entries ps).map (fun p => (p.val, p.key))
  | _ => []

/-- `Next()` at offset `k` is the k-th visit, and there is none at the end: every element exactly once, in order -/
theorem C02_iterNext_enumerates (v : Value) (k : Nat) : iterNext v k = (visits v)[k]? := by
  cases v <;> simp only [iterNext, visits]
  case array els =>
    by_cases h : k < els.length
    · simp [h, List.getElem?_range]
    · simp [h, List.getElem?_eq_none (Nat.le_of_not_lt (by simpa using h))]
  case str s =>
    by_cases h : k < s.length
    · simp [h, List.getElem?_range]
    · simp [h, List.getElem?_eq_none (Nat.le_of_not_lt (by simpa using h))]
  case hash ps =>
    by_cases h : k < (HashMapModel.entries ps).length
    · simp [h]
    · simp [h, List.getElem?_eq_none (Nat.le_of_not_lt h)]
  all_goals simp

/-- one OpIterationNext with elements left: binds the loop variable (and the index variable when one
    was given) in the loop's scope, advances the iterator by one, pushes true -/
theorem C02_iteration_step (arg next : Nat) (varName idxName v : Value) (off : Nat) (rest : List Value) (st : RunSt)
    (x idx : Value) (h : iterNext v off = some (x, idx)) :
    step M obj codeLen runBody Op.iterationNext.toNat arg next (varName :: idxName :: .iterating v off :: rest) st =
      .cont next (.bool true :: .iterating v (off + 1) :: rest)
        { st with env := (if idxName.inspect.isEmpty then st.env.declare varName.inspect x
                          else (st.env.declare varName.inspect x).declare idxName.inspect idx) } := by
  have : Op.ofNat? Op.iterationNext.toNat = some .iterationNext := rfl
  simp only [step, this, isBinary]
  simp [h]

/-- one OpIterationNext at the end: the iterator is dropped, the loop scope closed, false pushed -/
theorem C02_iteration_end (arg next : Nat) (varName idxName v : Value) (off : Nat) (rest : List Value) (st : RunSt)
    (env' : Env) (h : iterNext v off = none) (hs : st.env.removeScope = some env') :
    step M obj codeLen runBody Op.iterationNext.toNat arg next (varName :: idxName :: .iterating v off :: rest) st =
      .cont next (.bool false :: rest) { st with env := env' } := by
  have : Op.ofNat? Op.iterationNext.toNat = some .iterationNext := rfl
  simp only [step, this, isBinary]
  simp [h, hs]

/-- OpIterationReset: opens the loop's scope and starts the iteration at offset 0 -/
theorem C02_iteration_reset (arg next : Nat) (els : List Value) (rest : List Value) (st : RunSt) :
    step M obj codeLen runBody Op.iterationReset.toNat arg next (.array els :: rest) st =
      .cont next (.iterating (.array els) 0 :: rest) { st with env := st.env.addScope } := by
  have : Op.ofNat? Op.iterationReset.toNat = some .iterationReset := rfl
  simp only [step, this, isBinary]
  simp

/-! ### the ternary, end to end -/

open EvalFilter.Exec in
/-- what the language defines for `c ? t : f`: the condition is evaluated, then exactly one arm, chosen
    by the truth of the condition's value; an error in the condition or in the chosen arm is the result -/
theorem C02_ternary_semantics (M : Machine) (obj : HostVal) (env : Env) (c t f : Expr) (out : Str) :
    evalE M obj env (.ternary c t f) out =
      (match evalE M obj env c out with
       | (.error e, o) => (.error e, o)
       | (.ok cv, o) => if cv.truthy then evalE M obj env t o else evalE M obj env f o) := by
  simp only [evalE]
  cases evalE M obj env c out with
  | mk res o => cases res <;> rfl

open EvalFilter.Exec in
/-- … and the compiled code does exactly that, for all value-producing `c`, `t`, `f` of any size,
    wherever the code is placed: the other arm's code is never entered -/
theorem C02_ternary_correct (c t f : Expr) (base : Nat) (cst : CState) (r : List Instr × CState)
    (hp : pureE (.ternary c t f) = true) (hc : compileExpr (.ternary c t f) base cst = .ok r)
    (M : Machine) (obj : HostVal) (code : Bytes) (ctx : Ctx M code) (hat : CodeAt code base r.1)
    (hpool : ∃ ex, M.consts = r.2.consts ++ ex) : Correct M obj code (.ternary c t f) base :=
  expr_ok _ base cst r hp hc M obj code ctx hat hpool

/-! ### statements, end to end -/

open EvalFilter.Exec in
/-- **Assignments, compound assignments, if / else-if / else, while, foreach, switch and return run exactly as the language defines.**  For every
    script built from these over value-producing expressions (any size and nesting), compiled without the
    optimizer, for every host object, environment and host-function table: the run ends with exactly the
    outcome of the big-step semantics `execSs` - the statements the language selects, in order, a loop
    body once per turn while its condition is truthy; `return` ends the script at once with its value;
    running off the end yields null; the first error ends the run - with the result, the output and the
    variables the semantics prescribes. -/
theorem C02_program_correct (F : FnTable) (prog : Program) (hp : pureSs prog = true) (hne : 1 ≤ Stmt.sizes prog) (c : Compiled)
    (hc : compileProgram prog = .ok c) (fns : List (Str × FnImpl)) (obj : HostVal) (env : Env) (out : Str)
    (polls depth f : Nat)
    (hF : FnOK (Api.newMachine c false fns (fun _ => false)) F obj)
    (hnd : execSs (Api.newMachine c false fns (fun _ => false)) F obj depth f prog env out ≠ .diverged) :
    ∃ n k, ∀ fuel, ∃ st',
      run (Api.newMachine c false fns (fun _ => false)) obj (fuel + n) ⟨env, out, polls, depth⟩ = st' ∧
      (match programResult (polls + k) depth (execSs (Api.newMachine c false fns (fun _ => false)) F obj depth f prog env out) with
       | some (r, s) => st'.1 = r ∧ st'.2.out = s.out ∧ st'.2.env.globals = s.env.globals ∧ st'.2.polls = s.polls
       | none => True) :=
  program_correct F prog hp hne c hc fns obj env out polls depth f hF hnd

open EvalFilter.Exec in
/-- **… scripts that define and call their own functions included, with no hypothesis about the machine.**
    For every script of the statement forms above, its function definitions wherever they stand - at top
    level, inside blocks, inside other functions (bodies of any size, calling each other and themselves, before
    or after their definition) - and whose calls of them stand in the
    positions `x = f(a, …);`, `f(a, …);` and `return f(a, …);`: the run of the compiled program ends with
    exactly the outcome of the big-step semantics over the script's own function table `allDefs prog`. -/
theorem C02_program_with_functions_correct (prog : Program) (hp : pureSs prog = true)
    (hne : 1 ≤ Stmt.sizes prog) (c : Compiled)
    (hc : compileProgram prog = .ok c) (fns : List (Str × FnImpl)) (obj : HostVal) (env : Env) (out : Str)
    (polls depth f : Nat)
    (hnd : execSs (Api.newMachine c false fns (fun _ => false)) (allDefs prog) obj depth f prog env out ≠ .diverged) :
    ∃ n k, ∀ fuel, ∃ st',
      run (Api.newMachine c false fns (fun _ => false)) obj (fuel + n) ⟨env, out, polls, depth⟩ = st' ∧
      (match programResult (polls + k) depth (execSs (Api.newMachine c false fns (fun _ => false)) (allDefs prog) obj depth f prog env out) with
       | some (r, s) => st'.1 = r ∧ st'.2.out = s.out ∧ st'.2.env.globals = s.env.globals ∧ st'.2.polls = s.polls
       | none => True) :=
  program_correct (allDefs prog) prog hp hne c hc fns obj env out polls depth f
    (fnOK_of_compile_all prog hp c hc fns obj) hnd

open EvalFilter.Exec in
/-- what the semantics says, spelled out for a block: statements run one after the other while each
    falls through; anything else (return, error) ends the block with that outcome -/
theorem C02_block_semantics (M : Machine) (F : FnTable) (obj : HostVal) (depth f : Nat) (s : Stmt) (ss : List Stmt) (env : Env) (out : Str)
    (h : ¬ IsPair s ss) :
    execSs M F obj depth (f + 1) (s :: ss) env out =
      (match execS M F obj depth f s env out with
       | .normal env' o' => execSs M F obj depth f ss env' o'
       | other => other) :=
  execSs_other M F obj depth f s ss env out h

open EvalFilter.Exec in
/-- … where `x++;` / `x--;` - which the parser reads as TWO statements, the operand and the postfix operator
    with the text before it as its variable - are one step: the operand is evaluated (its value is dropped),
    then the named variable, if it holds an integer or a float, is replaced by a fresh value one more or
    less; anything else is an error -/
theorem C02_incdec_semantics (M : Machine) (F : FnTable) (obj : HostVal) (depth f : Nat) (e : Expr) (name op : Str) (ss : List Stmt)
    (env : Env) (out : Str) :
    execSs M F obj depth (f + 1) (.expr e :: .expr (.postfix name op) :: ss) env out =
      (match evalE M obj env e out with
       | (.error x, o) => failE x env o
       | (.ok _, o) =>
         match incDecEnv obj env name (op == ['+', '+']) with
         | .error x => .failed x env o
         | .ok env' => execSs M F obj depth f ss env' o) := by
  simp only [execSs]
  cases evalE M obj env e out with
  | mk res o =>
    cases res with
    | error x => rfl
    | ok v => simp only []; cases incDecEnv obj env name (op == ['+', '+']) <;> rfl

open EvalFilter.Exec in
/-- … and for a loop: the condition is evaluated; if truthy the body runs once and the loop starts
    again with the variables the body left, otherwise the loop is over -/
theorem C02_while_semantics (M : Machine) (F : FnTable) (obj : HostVal) (depth f : Nat) (c : Expr) (body : List Stmt) (env : Env) (out : Str) :
    execE M F obj depth (f + 1) (.whileE c body) env out =
      (match evalE M obj env c out with
       | (.error e, o) => failE e env o
       | (.ok cv, o) =>
         if cv.truthy then
           match execSs M F obj depth f body env o with
           | .normal env' o' => execE M F obj depth f (.whileE c body) env' o'
           | other => other
         else .normal env o) := by
  simp only [execE]
  cases evalE M obj env c out with
  | mk res o =>
    cases res with
    | error e => rfl
    | ok cv =>
      by_cases h : cv.truthy = true
      · simp only [h, ↓reduceIte]
        cases execSs M F obj depth f body env o <;> rfl
      · simp only [h, Bool.false_eq_true, ↓reduceIte]

open EvalFilter.Exec in
/-- … and for `foreach`: the iterable is evaluated once and a scope is opened; then, turn after turn, the
    next element (in the order `C02_iterNext_enumerates` fixes: positions of an array, characters of a
    string, the sorted entries of a hash) is bound to the loop variable(s) and the body runs once; when
    the elements are used up the scope is closed and the loop is over; `return` or an error in the body
    ends the loop at once -/
theorem C02_foreach_semantics (M : Machine) (F : FnTable) (obj : HostVal) (depth f : Nat) (idx x : Str) (body : List Stmt)
    (it : Value) (k : Nat) (env : Env) (out : Str) :
    execIter M F obj depth (f + 1) idx x body it k env out =
      (match iterNext it k with
       | some (val, i) =>
         match execSs M F obj depth f body (if idx.isEmpty then env.declare x val else (env.declare x val).declare idx i) out with
         | .normal env' o' => execIter M F obj depth f idx x body it (k + 1) env' o'
         | other => other
       | none =>
         match env.removeScope with
         | none => .failed (.error "removeScope") env out
         | some e => .normal e out) := by
  simp only [execIter]
  cases iterNext it k with
  | none => simp only []; cases env.removeScope <;> rfl
  | some p =>
    obtain ⟨val, i⟩ := p
    simp only []
    cases execSs M F obj depth f body (if idx.isEmpty then env.declare x val else (env.declare x val).declare idx i) out <;> rfl

open EvalFilter.Exec in
theorem C02_foreach_start (M : Machine) (F : FnTable) (obj : HostVal) (depth f : Nat) (idx x : Str) (v : Expr) (body : List Stmt)
    (env : Env) (out : Str) :
    execE M F obj depth (f + 1) (.foreachE idx x v body) env out =
      (match evalE M obj env v out with
       | (.error e, o) => failE e env o
       | (.ok iv, o) =>
         match resetVal iv with
         | .ok it => execIter M F obj depth f idx x body it 0 env.addScope o
         | .error e => .failed e env.addScope o) := by
  simp only [execE]
  cases evalE M obj env v out with
  | mk res o =>
    cases res with
    | error e => rfl
    | ok iv => simp only []; cases resetVal iv <;> rfl

open EvalFilter.Exec in
/-- … and for `switch`: the non-default cases are tried in source order, the expressions of a case left to
    right; for each test the switch value is evaluated anew, then the case expression, and OpCase decides
    (same type and text; else, for a regexp case, the match; else no); the FIRST test that succeeds runs
    its block and the switch is over - exactly one arm runs; when none succeeds the default block runs -/
theorem C02_switch_semantics (M : Machine) (F : FnTable) (obj : HostVal) (depth f : Nat) (v : Expr) (cs : List Case) (env : Env) (out : Str) :
    execE M F obj depth (f + 1) (.switchE v cs) env out =
      (match execArms M F obj depth f v cs env out with
       | .done o => o
       | .next env' out' => execDefaults M F obj depth f cs env' out') := by
  simp only [execE]
  cases execArms M F obj depth f v cs env out <;> rfl

open EvalFilter.Exec in
theorem C02_switch_test (M : Machine) (F : FnTable) (obj : HostVal) (depth f : Nat) (v e : Expr) (es : List Expr) (b : List Stmt) (env : Env) (out : Str) :
    execArm M F obj depth (f + 1) v (e :: es) b env out =
      (match evalE M obj env v out with
       | (.error x, o) => .done (failE x env o)
       | (.ok vv, o1) =>
         match evalE M obj env e o1 with
         | (.error x, o) => .done (failE x env o)
         | (.ok ev, o2) =>
           match caseOp M vv ev with
           | .error x => .done (.failed x env o2)
           | .ok (t, o3) =>
             if t.truthy then .done (execSs M F obj depth f b env (o2 ++ o3))
             else execArm M F obj depth f v es b env (o2 ++ o3)) := by
  simp only [execArm]
  cases evalE M obj env v out with
  | mk res o1 =>
    cases res with
    | error x => rfl
    | ok vv =>
      simp only []
      cases evalE M obj env e o1 with
      | mk res2 o2 =>
        cases res2 with
        | error x => rfl
        | ok ev =>
          simp only []
          cases caseOp M vv ev with
          | error x => rfl
          | ok p => rfl

open EvalFilter.Exec in
/-- what OpCase decides -/
theorem C02_case_decision (M : Machine) (val caseVal : Value) :
    caseOp M val caseVal =
      (if sameTypeAndText val caseVal then .ok (.bool true, [])
       else if caseVal.isType .REGEXP then callMatch M val caseVal
       else .ok (.bool false, [])) := rfl

/-! the hypotheses of `C02_program_correct` are met by real scripts: `s = 0; foreach i, x in [5, 7] { s = s + i * x; } return s;` -/
section nonvacuous
open EvalFilter.Exec
private def progF : Program :=
  [ .expr (.assign ['s'] (.intLit ['0'] 0)),
    .expr (.foreachE ['i'] ['x'] (.arrayLit [.intLit ['5'] 5, .intLit ['7'] 7])
      [ .expr (.assign ['s'] (.infix ['+'] (.ident ['s']) (.infix ['*'] (.ident ['i']) (.ident ['x'])))) ]),
    .ret (.ident ['s']) ]
private def compF : Compiled := match compileProgram progF with | .ok c => c | .error _ => ⟨[], [], []⟩
example : pureSs progF = true := by decide
example : compileProgram progF = .ok compF := by rfl
example : ∃ e o, execSs (Api.newMachine compF false [] (fun _ => false)) [] .nilIface 0 10 progF {} [] = .returned (.int 7) e o :=
  ⟨_, _, by rfl⟩
/-- a script that defines no function meets the function-table hypothesis with the empty table -/
example : FnOK (Api.newMachine compF false [] (fun _ => false)) [] .nilIface :=
  ⟨fun _ _ => rfl, fun _ _ h => by simp [FnTable.find] at h⟩
/-- `k = 0; while (k < 3) { k = k + 1; } if (k == 3) { return 1; } else { return 2; }` -/
private def progW : Program :=
  [ .expr (.assign ['k'] (.intLit ['0'] 0)),
    .expr (.whileE (.infix ['<'] (.ident ['k']) (.intLit ['3'] 3)) [ .expr (.assign ['k'] (.infix ['+'] (.ident ['k']) (.intLit ['1'] 1))) ]),
    .expr (.ifE (.infix ['=', '='] (.ident ['k']) (.intLit ['3'] 3)) [ .ret (.intLit ['1'] 1) ] (some [ .ret (.intLit ['2'] 2) ])) ]
private def compW : Compiled := match compileProgram progW with | .ok c => c | .error _ => ⟨[], [], []⟩
example : pureSs progW = true := by decide
example : compileProgram progW = .ok compW := by rfl
example : ∃ e o, execSs (Api.newMachine compW false [] (fun _ => false)) [] .nilIface 0 12 progW {} [] = .returned (.int 1) e o :=
  ⟨_, _, by rfl⟩
/-- `k = 2; switch (k + 1) { case 1, 2 { return "a"; } case 3 { r = "b"; } default { r = "c"; } } return r;` -/
private def progS : Program :=
  [ .expr (.assign ['k'] (.intLit ['2'] 2)),
    .expr (.switchE (.infix ['+'] (.ident ['k']) (.intLit ['1'] 1))
      [ .mk false [.intLit ['1'] 1, .intLit ['2'] 2] [ .ret (.strLit ['a']) ],
        .mk false [.intLit ['3'] 3] [ .expr (.assign ['r'] (.strLit ['b'])) ],
        .mk true [] [ .expr (.assign ['r'] (.strLit ['c'])) ] ]),
    .ret (.ident ['r']) ]
private def compS : Compiled := match compileProgram progS with | .ok c => c | .error _ => ⟨[], [], []⟩
example : pureSs progS = true := by decide
example : compileProgram progS = .ok compS := by rfl
example : ∃ e o, execSs (Api.newMachine compS false [] (fun _ => false)) [] .nilIface 0 12 progS {} [] = .returned (.str ['b']) e o :=
  ⟨_, _, by rfl⟩
/-- a recursive function, called before its definition:
    `x = fact(4); function fact(n) { if (n < 2) { return 1; } r = fact(n - 1); return n * r; } return x;` -/
private def progR : Program :=
  [ .expr (.assign ['x'] (.call (.ident ['f','a','c','t']) [.intLit ['4'] 4])),
    .expr (.funcDef ['f','a','c','t'] [['n']]
      [ .expr (.ifE (.infix ['<'] (.ident ['n']) (.intLit ['2'] 2)) [ .ret (.intLit ['1'] 1) ] none),
        .expr (.assign ['r'] (.call (.ident ['f','a','c','t']) [.infix ['-'] (.ident ['n']) (.intLit ['1'] 1)])),
        .ret (.infix ['*'] (.ident ['n']) (.ident ['r'])) ]),
    .ret (.ident ['x']) ]
private def compR : Compiled := match compileProgram progR with | .ok c => c | .error _ => ⟨[], [], []⟩
example : pureSs progR = true := by decide
example : compileProgram progR = .ok compR := by
  have hok : (match compileProgram progR with | .ok _ => true | .error _ => false) = true := by decide +kernel
  unfold compR
  cases h : compileProgram progR with
  | ok c => rfl
  | error e => rw [h] at hok; cases hok
/-- … and it yields 4! = 24 (evaluated by the kernel) -/
example : (match execSs (Api.newMachine compR false [] (fun _ => false)) (allDefs progR) .nilIface 0 40 progR {} [] with
    | .returned (.int v) _ _ => v == 24
    | _ => false) = true := by decide +kernel
/-- built-in functions called inside expressions and conditions:
    `x = len("abc") + 1; if (x > len("abc")) { return x * 2; } return 0;` yields 8 -/
private def progB : Program :=
  [ .expr (.assign ['x'] (.infix ['+'] (.call (.ident ['l','e','n']) [.strLit ['a','b','c']]) (.intLit ['1'] 1))),
    .expr (.ifE (.infix ['>'] (.ident ['x']) (.call (.ident ['l','e','n']) [.strLit ['a','b','c']]))
      [ .ret (.infix ['*'] (.ident ['x']) (.intLit ['2'] 2)) ] none),
    .ret (.intLit ['0'] 0) ]
private def compB : Compiled := match compileProgram progB with | .ok c => c | .error _ => ⟨[], [], []⟩
example : pureSs progB = true := by decide
example : compileProgram progB = .ok compB := by
  have hok : (match compileProgram progB with | .ok _ => true | .error _ => false) = true := by decide +kernel
  unfold compB
  cases h : compileProgram progB with
  | ok c => rfl
  | error e => rw [h] at hok; cases hok
example : (match execSs (Api.newMachine compB false Api.defaultFns (fun _ => false)) (allDefs progB) .nilIface 0 20 progB {} [] with
    | .returned (.int v) _ _ => v == 8
    | _ => false) = true := by decide +kernel
/-- the README's loop: `i = 0; sum = 0; while (i < 5) { sum += i; i++; } return sum;` yields 10 -/
private def progI : Program :=
  [ .expr (.assign ['i'] (.intLit ['0'] 0)),
    .expr (.assign ['s','u','m'] (.intLit ['0'] 0)),
    .expr (.whileE (.infix ['<'] (.ident ['i']) (.intLit ['5'] 5))
      [ .expr (.infix ['+','='] (.ident ['s','u','m']) (.ident ['i'])),
        .expr (.ident ['i']), .expr (.postfix ['i'] ['+','+']) ]),
    .ret (.ident ['s','u','m']) ]
private def compI : Compiled := match compileProgram progI with | .ok c => c | .error _ => ⟨[], [], []⟩
example : pureSs progI = true := by decide
example : compileProgram progI = .ok compI := by
  have hok : (match compileProgram progI with | .ok _ => true | .error _ => false) = true := by decide +kernel
  unfold compI
  cases h : compileProgram progI with
  | ok c => rfl
  | error e => rw [h] at hok; cases hok
example : (match execSs (Api.newMachine compI false [] (fun _ => false)) (allDefs progI) .nilIface 0 40 progI {} [] with
    | .returned (.int v) _ _ => v == 10
    | _ => false) = true := by decide +kernel
end nonvacuous

end EvalFilter.Props.C02
