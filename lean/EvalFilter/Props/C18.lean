/-
  C18 — Every accepted script compiles to well-formed machine code.

  `Model/WF.lean` is a byte-code verifier (decode, jump targets, constant references, function
  bodies end in a return, stack-depth certificate).  The harness runs it on the bytes the prepared
  evaluator really holds (main body and every function body, before and after optimisation) for every
  accepted case, and on the model compiler's output (compared byte for byte with the real one).

  Proved here, for ALL programs:
    * the verifier's decoder agrees with the emitter: decoding what `emit` wrote gives back the
      instructions, with operands truncated to 16 bits exactly as `emit` truncates them;
    * every decoded instruction sits where the VM's fetch/decode finds it, with complete operands,
      and is followed by a decoded instruction or the end of the body;
    * a program accepted by the verifier satisfies the declarative static conditions, and a machine
      satisfying them NEVER ends a run with "unknown opcode", "instruction pointer out of bounds" or
      "bad constant" - for every object, state, step budget and call depth (the instruction pointer
      only ever stands on instruction starts);
    * a program accepted by the verifier carries a valid stack-depth certificate, and a machine whose
      bodies carry one NEVER ends a run in a stack underflow, given that called functions return a
      value (the property's proviso) - induction over the VM loop with the invariant "the
      instruction pointer is on a certified instruction start and the stack is at least as deep as
      certified";
    * for ALL scripts: emitted sizes, closed jumps, constant references, function bodies end in a
      return; a script prepared with NoOptimize never hits a decode error.
  Not proved: that the optimizer preserves these conditions, and that the compiler's output always
  carries a valid stack certificate (it does not: known finding KF-25); both are checked by running
  the verifier on the real bytes of every generated program.
-/
import EvalFilter.Model.Api
import EvalFilter.Proofs.WFCheck
import EvalFilter.Proofs.CompStatic
import EvalFilter.Proofs.WFStackLoop
import EvalFilter.Props.Tables
import EvalFilter.Props.C03

namespace EvalFilter.Props.C18
open EvalFilter EvalFilter.VM EvalFilter.WF

/-! ### the decoder and the emitter agree -/

/-- decoding the bytes `emit` produced for a list of instructions gives the instructions back (operands
    truncated to 16 bits, as `emit` truncates them: `WF.stored`) -/
theorem C18_decode_encode (is : List Instr) (off : Nat) :
    decode off (encodeAll is) = some (withOffsets off is) := decode_encodeAll is off

/-- the instruction lengths the verifier, the VM and the emitter use are one table, the one in
    code/code.go (regenerated on this run) -/
theorem C18_lengths_are_the_code : Generated.opcodes = Spec.Tables.opcodes := Props.Tables.gen_opcodes

/-- every decoded instruction is where the VM will fetch it, complete, and followed by another -/
theorem C18_decoded_instructions (code : Bytes) (instrs : List (Nat × Instr)) (hd : decode 0 code = some instrs)
    (o : Nat) (i : Instr) (hmem : (o, i) ∈ instrs) :
    o + i.size ≤ code.length ∧ code.getD o 0 = UInt8.ofNat i.op.toNat ∧
    (i.op.length = 3 → i.arg = decode16 (code.getD (o + 1) 0) (code.getD (o + 2) 0)) ∧
    (o + i.size = code.length ∨ ∃ j, (o + i.size, j) ∈ instrs) := by
  obtain ⟨a, b, c, _, e⟩ := decode_spec code instrs hd o i hmem
  exact ⟨a, b, c, e⟩

/-! ### accepted by the verifier ⇒ static conditions ⇒ no internal errors -/

theorem C18_verifier_sound (cs : List Bool) (main : Bytes) (funcs : List Bytes) (h : check cs main funcs = none) :
    (∃ instrs, StaticOk cs.length main instrs) ∧ ∀ f, f ∈ funcs → ∃ instrs, StaticOk cs.length f instrs :=
  check_static cs main funcs h

/-- A machine that passes the verifier never ends a run with an unknown opcode, an instruction pointer
    out of bounds or a bad constant index: for every object, state, step budget, at any call depth. -/
theorem C18_no_decode_errors (M : Machine) (h : checkMachine M = none) (obj : HostVal) (fuel : Nat) (st : RunSt) :
    (run M obj fuel st).1 ≠ err "unknownOpcode" ∧ (run M obj fuel st).1 ≠ err "ipOOB" ∧
    (run M obj fuel st).1 ≠ err "badConstant" := by
  have := run_static M h obj fuel st
  simp only [internalStatic, not_or] at this
  exact this

/-- the same from any instruction start of any verified body, with any stack (this is what makes the
    induction go through: the instruction pointer never leaves the set of instruction starts) -/
theorem C18_ip_stays_on_instruction_starts (M : Machine) (obj : HostVal)
    (hfuncs : ∀ uf, uf ∈ M.funcs → ∃ instrs, StaticOk M.consts.length uf.code instrs)
    (fuel : Nat) (code : Bytes) (instrs : List (Nat × Instr)) (hs : StaticOk M.consts.length code instrs)
    (ip : Nat) (stack : List Value) (st : RunSt) (hip : ip = code.length ∨ ∃ i, (ip, i) ∈ instrs) :
    ¬ internalStatic (loop M obj code fuel ip stack st).1 :=
  loop_static M obj hfuncs fuel code instrs hs ip stack st hip

/-- operators and helpers never report one of the machine's internal error classes -/
theorem C18_operator_errors_are_not_internal (M : Machine) (op : Op) (l r : Value) (e : Err)
    (h : binop M op l r = .error e) :
    e ≠ .error "unknownOpcode" ∧ e ≠ .error "ipOOB" ∧ e ≠ .error "badConstant" ∧ e ≠ .error "underflow" :=
  binop_clean h

/-! ### every accepted script, before the optimizer -/

/-- the code emitted for any tree has exactly the size the compiler's label arithmetic assumes -/
theorem C18_emitted_size (e : Expr) (base : Nat) (st : Compiler.CState) (r : List Instr × Compiler.CState)
    (h : Compiler.compileExpr e base st = .ok r) : codeSize r.1 = e.size := Compiler.compileExpr_size e base st r h

/-- every jump emitted for any tree, at any offset, lands on an instruction start of that tree's code -/
theorem C18_jumps_closed (e : Expr) (base : Nat) (st : Compiler.CState) (r : List Instr × Compiler.CState)
    (h : Compiler.compileExpr e base st = .ok r) : Compiler.Closed base r.1 := Compiler.compileExpr_closed e base st r h

/-- **For every accepted script** the compiled program - main body and every function body - decodes
    completely, jumps only to instruction starts of the same body, references only existing constants,
    and every function body ends in a return. -/
theorem C18_compile_wf (prog : Program) (c : Compiler.Compiled) (h : Compiler.compileProgram prog = .ok c) :
    StaticOk c.consts.length (encodeAll c.main) (withOffsets 0 c.main) ∧
    ∀ f, f ∈ c.funcs → StaticOk c.consts.length (encodeAll f.code) (withOffsets 0 f.code) ∧ Compiler.EndsRet f.code :=
  compileProgram_static prog c h

/-- **For every script prepared with NoOptimize**, no run ever ends with an unknown opcode, an instruction
    pointer out of bounds or a bad constant. -/
theorem C18_unoptimized_no_decode_errors (script : List Char) (env : Env) (fns : List (Str × FnImpl))
    (done : Nat → Bool) (p : Api.Prepared) (env' : Env) (h : Api.prepare script false env fns done = .ok (p, env'))
    (obj : HostVal) (fuel : Nat) (st : RunSt) :
    (run p.machine obj fuel st).1 ≠ err "unknownOpcode" ∧ (run p.machine obj fuel st).1 ≠ err "ipOOB" ∧
    (run p.machine obj fuel st).1 ≠ err "badConstant" := by
  have := prepared_unoptimized_static script env fns done p env' h obj fuel st
  simp only [internalStatic, not_or] at this
  exact this

/-! ### … and after the optimizer, for programs whose optimisation validates -/

open EvalFilter.Compiler in
/-- the unoptimised machine of any accepted compilation never ends a run in one of the internal decode errors -/
theorem C18_compiled_unoptimized_static (prog : Program) (c : Compiled) (hc : compileProgram prog = .ok c)
    (fns : List (Str × FnImpl)) (done : Nat → Bool) (obj : HostVal) (fuel : Nat) (st : RunSt) :
    ¬ internalStatic (run (Api.newMachine c false fns done) obj fuel st).1 := by
  obtain ⟨hm, hf⟩ := compileProgram_static _ c hc
  have hfuncs : ∀ uf, uf ∈ (Api.newMachine c false fns done).funcs →
      ∃ instrs, StaticOk (Api.newMachine c false fns done).consts.length uf.code instrs := by
    intro uf huf
    simp only [Api.newMachine, List.mem_map] at huf
    obtain ⟨f, hfm, rfl⟩ := huf
    exact ⟨_, (hf f hfm).1⟩
  unfold run
  split
  · simp [internalStatic, err]
  · simp only [finish]
    have hm' : StaticOk (Api.newMachine c false fns done).consts.length (Api.newMachine c false fns done).main
        (withOffsets 0 c.main) := hm
    exact loop_static _ obj hfuncs fuel _ _ hm' 0 [] st (by
      rcases start_of_static hm' with h | h
      · left; exact h
      · right; exact h)

open EvalFilter.Compiler in
/-- **… and neither does the OPTIMISED program, when its optimisation validates**: a run of the optimised
    program that ended in an unknown opcode, an instruction pointer out of bounds or a bad constant would be
    matched by a run of the unoptimised program with the same result (C03) - which never happens. -/
theorem C18_optimized_no_decode_errors (prog : Program) (c : Compiled) (hc : compileProgram prog = .ok c)
    (hv : C03.validated c = true) (fns : List (Str × FnImpl)) (obj : HostVal) (fuel : Nat) (st : RunSt) :
    (run (Api.newMachine c true fns (fun _ => false)) obj fuel st).1 ≠ err "unknownOpcode" ∧
    (run (Api.newMachine c true fns (fun _ => false)) obj fuel st).1 ≠ err "ipOOB" ∧
    (run (Api.newMachine c true fns (fun _ => false)) obj fuel st).1 ≠ err "badConstant" := by
  have key : ¬ internalStatic (run (Api.newMachine c true fns (fun _ => false)) obj fuel st).1 := by
    intro hi
    have hend : (run (Api.newMachine c true fns (fun _ => false)) obj fuel st).1 ≠ .error .outOfFuel := by
      rcases hi with h | h | h <;> (rw [h]; simp [err])
    obtain ⟨f, h1, _, _⟩ := C03.C03_optimizer_adds_no_finished_runs c fns obj hv fuel st st ⟨rfl, rfl, rfl⟩ hend
    have := C18_compiled_unoptimized_static prog c hc fns (fun _ => false) obj f st
    rw [h1] at this
    exact this hi
  simp only [internalStatic, not_or] at key
  exact key


/-! ### the stack -/

/-- one instruction: with the certified depth on the stack (or, right after an exhausted
    OpIterationNext, one less with `false` on top) the VM does not report an underflow, and continues
    at a successor the certificate covers with the depth it promises there -/
theorem C18_step_stack (M : Machine) (obj : HostVal) (codeLen : Nat) (runBody : Bytes → RunSt → Res × RunSt)
    (i : Instr) (next : Nat) (stack : List Value) (st : RunSt) (a : Bool) (d : Nat)
    (ha : a = true → i.op = .jumpIfFalse) (hd : Depth a d stack) (hp : pops i ≤ d) (hnv : NoVoidFns M)
    (hrunV : ∀ uf, uf ∈ M.funcs → ∀ s v, (runBody uf.code s).1 = .ok v → v.isType .VOID = false)
    (hrunU : ∀ uf, uf ∈ M.funcs → ∀ s, (runBody uf.code s).1 ≠ err "underflow") :
    StackStep i next a d (step M obj codeLen runBody i.op.toNat i.arg next stack st) :=
  step_stack M obj codeLen runBody i next stack st a d ha hd hp hnv hrunV hrunU

/-- the executable verifier implies the declarative certificate conditions, for every body -/
theorem C18_verifier_stack_sound (cs : List Bool) (main : Bytes) (funcs : List Bytes) (h : check cs main funcs = none) :
    (∃ instrs cert, StaticOk cs.length main instrs ∧ StackOk main instrs cert) ∧
    ∀ f, f ∈ funcs → ∃ instrs cert, StaticOk cs.length f instrs ∧ StackOk f instrs cert :=
  check_stack cs main funcs h

/-- **A machine that passes the verifier never ends a run in a stack underflow, given that called
    functions return a value** (the property's own proviso, `CallsReturnValues`): every object, state,
    step budget and call depth. -/
theorem C18_no_underflow (M : Machine) (h : checkMachine M = none) (obj : HostVal)
    (hcv : CallsReturnValues M obj) (fuel : Nat) (st : RunSt) : (run M obj fuel st).1 ≠ err "underflow" :=
  run_stack M h obj hcv fuel st

/-- non-vacuity: the hypotheses of the theorems are met by real compiled programs, and the verifier
    is not trivially permissive: it rejects a jump into the middle of an instruction, a constant index
    past the pool, a function body that falls off its end, and a pop from an empty stack -/
theorem C18_rejects :
    (checkBody [true] ⟨encodeAll [⟨.jump, 4⟩, ⟨.constant, 0⟩, ⟨.return, 0⟩], false⟩).isSome = true ∧
    (checkBody [true] ⟨encodeAll [⟨.constant, 1⟩, ⟨.return, 0⟩], false⟩).isSome = true ∧
    (checkBody [true] ⟨encodeAll [⟨.constant, 0⟩, ⟨.set, 0⟩], true⟩).isSome = true ∧
    (checkBody [true] ⟨encodeAll [⟨.add, 0⟩, ⟨.return, 0⟩], false⟩).isSome = true ∧
    (checkBody [true] ⟨[43], false⟩).isSome = true ∧
    (checkBody [true] ⟨[0, 0], false⟩).isSome = true ∧
    (checkBody [true] ⟨encodeAll [⟨.constant, 0⟩, ⟨.return, 0⟩], true⟩).isSome = false := by
  refine ⟨?_, ?_, ?_, ?_, ?_, ?_, ?_⟩
  · simp only [checkBody, decode_encodeAll]; decide
  · simp only [checkBody, decode_encodeAll]; decide
  · simp only [checkBody, decode_encodeAll]; decide
  · simp only [checkBody, decode_encodeAll]; decide
  · simp [checkBody, decode, Op.ofNat?]
  · simp [checkBody, decode, Op.ofNat?, Op.length]
  · simp only [checkBody, decode_encodeAll]; decide

end EvalFilter.Props.C18
