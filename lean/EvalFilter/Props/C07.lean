/-
  C07 — A prepared script carries no hidden state from one run to the next.

  In the model the prepared program (`Machine`: constants, main byte code, function
  bodies, function table) is immutable, and a run maps a run state
  (variables + open scopes) to a result and a new run state.  The theorems show that,
  whatever happens during a run - return from any depth, error, panic, time-out,
  running out of byte code - no scope survives it, so that the only thing a run
  hands to the next one is the global variables; hence every run of a history
  equals the first run of a fresh evaluator holding the same variables, and costs
  the same number of instruction polls.

  That the Go code really has no other state that survives (the swapped
  `vm.bytecode`/`vm.stack`, mutated constants, iteration offsets) is the tie:
  the regenerated `mutationSites` table and the S-hist stream, whose direct oracle
  compares a much-used evaluator with a fresh one on the real code.
-/
import EvalFilter.Proofs.VMFrame
import EvalFilter.Model.Api
import EvalFilter.Props.Tables

namespace EvalFilter.Props.C07
open EvalFilter EvalFilter.VM

/-- no scope is open -/
def Clean (st : RunSt) : Prop := st.env.scopes = []

/-- Whatever the byte code, the object and the outcome (value, error, panic, time-out, out of fuel):
    a run that starts with no open scope ends with no open scope. -/
theorem C07_run_leaves_clean (M : Machine) (obj : HostVal) (fuel : Nat) (st : RunSt) (h : Clean st) :
    Clean (run M obj fuel st).2 := by
  unfold Clean at *
  unfold run
  split
  · exact h
  · simp [finish, Env.truncate, h]

/-- more generally a run never leaves more scopes open than it found -/
theorem C07_run_scopes_le (M : Machine) (obj : HostVal) (fuel : Nat) (st : RunSt) :
    (run M obj fuel st).2.env.scopes.length ≤ st.env.scopes.length := by
  unfold run
  split
  · exact Nat.le_refl _
  · simp [finish, Env.truncate, List.length_take]
    omega

/-- the same holds for the run of a user-defined function body (the nested `vm.Run`) -/
theorem C07_invoke_scopes_le (runBody : Bytes → RunSt → Res × RunSt) (uf : UserFn) (args : List Value) (st : RunSt) :
    (invoke runBody uf args st).2.env.scopes.length ≤ st.env.scopes.length + 1 :=
  invoke_scopes_le runBody uf args st

/-- … and the call-depth counter is back where it was -/
theorem C07_invoke_depth_restored (runBody : Bytes → RunSt → Res × RunSt) (uf : UserFn) (args : List Value) (st : RunSt) :
    (invoke runBody uf args st).2.depth = st.depth := by
  unfold invoke
  simp only []
  split
  · rfl
  · split
    · rfl
    · split <;> rfl

/-- one run of a prepared evaluator, as a function of the variables it holds:
    (result, output, variables afterwards, instruction polls used) -/
def runWith (M : Machine) (fuel : Nat) (globals : Scope) (obj : HostVal) : Res × Str × Scope × Nat :=
  let r := run M obj fuel { env := { globals := globals, scopes := [] }, out := [], polls := 0 }
  (r.1, r.2.out, r.2.env.globals, r.2.polls)

/-- a history of runs on one evaluator: the state carried from run to run -/
def history (M : Machine) (fuel : Nat) : RunSt → List HostVal → List (Res × Str × Scope × Nat)
  | _, [] => []
  | st, obj :: rest =>
    let r := run M obj fuel { env := st.env, out := [], polls := 0 }
    (r.1, r.2.out, r.2.env.globals, r.2.polls) :: history M fuel r.2 rest

/-- the same history on fresh evaluators: each run on a new evaluator given the current variables -/
def freshHistory (M : Machine) (fuel : Nat) : Scope → List HostVal → List (Res × Str × Scope × Nat)
  | _, [] => []
  | g, obj :: rest =>
    let r := runWith M fuel g obj
    r :: freshHistory M fuel r.2.2.1 rest

/-- For every finite sequence of runs - including runs that end by error, panic, argument
    mismatch, early return out of nested loops and calls, or time-out - the k-th run on a much-used
    evaluator gives the result, output, resulting variables AND cost of the first run of a freshly
    prepared evaluator holding the same variables. -/
theorem C07_history_independent (M : Machine) (fuel : Nat) (st : RunSt) (h : Clean st) (objs : List HostVal) :
    history M fuel st objs = freshHistory M fuel st.env.globals objs := by
  induction objs generalizing st with
  | nil => rfl
  | cons obj rest ih =>
    unfold Clean at h
    simp only [history, freshHistory, runWith]
    have hst : ({ env := st.env, out := [], polls := 0 } : RunSt) =
        { env := { globals := st.env.globals, scopes := [] }, out := [], polls := 0 } := by
      cases st with
      | mk env out polls depth => cases env with
        | mk g s => simp at h; subst h; rfl
    rw [hst]
    congr 1
    apply ih
    exact C07_run_leaves_clean M obj fuel _ rfl

/-- in particular the cost of a run (instruction polls) does not grow with the number of earlier runs -/
theorem C07_cost_independent (M : Machine) (fuel : Nat) (st : RunSt) (h : Clean st) (objs : List HostVal) :
    (history M fuel st objs).map (·.2.2.2) = (freshHistory M fuel st.env.globals objs).map (·.2.2.2) := by
  rw [C07_history_independent M fuel st h objs]

/-- the only places in the library that write to an object in place are the ones audited -/
theorem C07_mutation_sites_audited : Generated.mutationSites = Spec.Tables.mutationSites :=
  Props.Tables.gen_mutationSites

/-- non-vacuity: a freshly constructed evaluator state is clean -/
example : Clean { env := { globals := [("n".toList, .int 1)], scopes := [] } } := rfl

end EvalFilter.Props.C07
