/-
  C19 — Preparing and running a script is deterministic.

  Everything in the model is a function, so determinism is about the places where
  the Go code iterates over a map (whose order Go randomises): `Hash.Entries`
  (printing, `keys`, iteration), the hash literal in the compiler, the function
  table in `vm.New` and in `Dump`.  Each is modelled as a function of a *list* in
  arbitrary order, and the theorems show the result does not depend on that order
  (for every permutation).  No object addresses exist in the model; that none is
  compared in the code is `identityComparisons = []` (C05).
-/
import EvalFilter.Model.Api
import EvalFilter.Proofs.StrOrder
import EvalFilter.Props.Tables

namespace EvalFilter.Props.C19
open EvalFilter

/-! ### the order used by `Hash.Entries` (ByName.Less, with the tie-break on the key's type) -/

def keyLe (a b : HPair) : Bool :=
  Value.entryLe (a.key.inspect, a.hk.ty, []) (b.key.inspect, b.hk.ty, [])

theorem keyLe_total (a b : HPair) : (keyLe a b || keyLe b a) = true := by
  unfold keyLe Value.entryLe
  simp only []
  rcases Str.lt_total a.key.inspect b.key.inspect with h | h | h
  · simp [h]
  · have := Str.lt_asymm _ _ h
    simp [h, this]
  · simp [h, Str.lt_irrefl]
    omega

theorem keyLe_trans (a b c : HPair) (h1 : keyLe a b = true) (h2 : keyLe b c = true) : keyLe a c = true := by
  unfold keyLe Value.entryLe at *
  simp only [] at *
  by_cases hab : Str.lt a.key.inspect b.key.inspect = true
  · by_cases hbc : Str.lt b.key.inspect c.key.inspect = true
    · simp [Str.lt_trans _ _ _ hab hbc]
    · have hbc' : Str.lt b.key.inspect c.key.inspect = false := by simpa using hbc
      have hcb : Str.lt c.key.inspect b.key.inspect = false := by
        cases hh : Str.lt c.key.inspect b.key.inspect
        · rfl
        · simp [hbc', hh] at h2
      have e := Str.eq_of_not_lt _ _ hbc' hcb
      rw [← e]; simp [hab]
  · have hab' : Str.lt a.key.inspect b.key.inspect = false := by simpa using hab
    have hba : Str.lt b.key.inspect a.key.inspect = false := by
      cases hh : Str.lt b.key.inspect a.key.inspect
      · rfl
      · simp [hab', hh] at h1
    have e := Str.eq_of_not_lt _ _ hab' hba
    simp only [hab', hba, Bool.false_eq_true, ↓reduceIte, decide_eq_true_eq] at h1
    rw [e]
    by_cases hbc : Str.lt b.key.inspect c.key.inspect = true
    · simp [hbc]
    · have hbc' : Str.lt b.key.inspect c.key.inspect = false := by simpa using hbc
      cases hcb : Str.lt c.key.inspect b.key.inspect
      · simp only [hbc', hcb, Bool.false_eq_true, ↓reduceIte, decide_eq_true_eq] at h2 ⊢
        omega
      · simp [hbc', hcb] at h2

/-- two pairs that compare equal both ways have the same printed key and the same key type -/
theorem keyLe_antisymm (a b : HPair) (h1 : keyLe a b = true) (h2 : keyLe b a = true) :
    a.key.inspect = b.key.inspect ∧ a.hk.ty.rank = b.hk.ty.rank := by
  unfold keyLe Value.entryLe at *
  simp only [] at *
  cases hab : Str.lt a.key.inspect b.key.inspect
  · cases hba : Str.lt b.key.inspect a.key.inspect
    · simp only [hab, hba, Bool.false_eq_true, ↓reduceIte, decide_eq_true_eq] at h1 h2
      exact ⟨Str.eq_of_not_lt _ _ hab hba, by omega⟩
    · simp [hab, hba] at h1
  · have := Str.lt_asymm _ _ hab
    simp [hab, this] at h2

/-- `Entries()` is sorted -/
theorem C19_entries_sorted (ps : List HPair) : (HashMapModel.entries ps).Pairwise (fun a b => keyLe a b = true) :=
  List.pairwise_mergeSort (le := keyLe) keyLe_trans keyLe_total ps

/-- The pairs of a hash have pairwise distinct (printed key, key type): what a Go
    `map[HashKey]HashPair` guarantees, because the HashKey is (type, hash of the printed form). -/
def DistinctKeys (ps : List HPair) : Prop :=
  ∀ a ∈ ps, ∀ b ∈ ps, a.key.inspect = b.key.inspect → a.hk.ty.rank = b.hk.ty.rank → a = b

/-- For every order in which Go may hand the pairs of a map to `Entries()`, the result is the same
    list: printing a hash, `keys()` and iteration do not depend on map iteration order. -/
theorem C19_entries_order_free (ps ps' : List HPair) (hperm : ps.Perm ps') (hd : DistinctKeys ps) :
    HashMapModel.entries ps = HashMapModel.entries ps' := by
  apply List.Perm.eq_of_pairwise (le := fun a b => keyLe a b = true)
  · intro a b ha hb h1 h2
    have ha' : a ∈ ps := (List.mergeSort_perm ps _).mem_iff.mp ha
    have hb' : b ∈ ps := hperm.mem_iff.mpr ((List.mergeSort_perm ps' _).mem_iff.mp hb)
    obtain ⟨e1, e2⟩ := keyLe_antisymm a b h1 h2
    exact hd a ha' b hb' e1 e2
  · exact C19_entries_sorted ps
  · exact C19_entries_sorted ps'
  · exact (List.mergeSort_perm ps _).trans (hperm.trans (List.mergeSort_perm ps' _).symm)

/-- hence the printed form of a hash does not depend on the order either -/
theorem C19_keys_order_free (ps ps' : List HPair) (hperm : ps.Perm ps') (hd : DistinctKeys ps) :
    (HashMapModel.entries ps).map HPair.key = (HashMapModel.entries ps').map HPair.key := by
  rw [C19_entries_order_free ps ps' hperm hd]

/-! ### the compiler's hash literal: pairs sorted by the text of the key, then of the value -/

theorem pairLt_iff {α : Type} (a b : Str × Str × α) :
    pairLt a b = true ↔ (Str.lt a.1 b.1 = true ∨ (a.1 = b.1 ∧ Str.lt a.2.1 b.2.1 = true)) := by
  simp [pairLt]

theorem pairLt_tri {α : Type} (a b : Str × Str × α) :
    pairLt a b = true ∨ pairLt b a = true ∨ (a.1 = b.1 ∧ a.2.1 = b.2.1) := by
  rw [pairLt_iff, pairLt_iff]
  rcases Str.lt_total a.1 b.1 with h | h | h
  · exact Or.inl (Or.inl h)
  · exact Or.inr (Or.inl (Or.inl h))
  · rcases Str.lt_total a.2.1 b.2.1 with h2 | h2 | h2
    · exact Or.inl (Or.inr ⟨h, h2⟩)
    · exact Or.inr (Or.inl (Or.inr ⟨h.symm, h2⟩))
    · exact Or.inr (Or.inr ⟨h, h2⟩)

theorem pairLt_trans {α : Type} (a b c : Str × Str × α) (h1 : pairLt a b = true) (h2 : pairLt b c = true) :
    pairLt a c = true := by
  rw [pairLt_iff] at *
  rcases h1 with h1 | ⟨e1, h1⟩ <;> rcases h2 with h2 | ⟨e2, h2⟩
  · exact Or.inl (Str.lt_trans _ _ _ h1 h2)
  · exact Or.inl (e2 ▸ h1)
  · exact Or.inl (e1 ▸ h2)
  · exact Or.inr ⟨e1.trans e2, Str.lt_trans _ _ _ h1 h2⟩

theorem pairLt_irrefl {α : Type} (a : Str × Str × α) : pairLt a a = false := by
  cases h : pairLt a a
  · rfl
  · rw [pairLt_iff] at h
    rcases h with h | ⟨_, h⟩ <;> rw [Str.lt_irrefl] at h <;> cases h

theorem pairLt_congr {α : Type} (a b c : Str × Str × α) (e1 : a.1 = b.1) (e2 : a.2.1 = b.2.1) :
    pairLt c a = pairLt c b := by
  simp [pairLt, e1, e2]

/-- the pairs of a hash literal are compiled in an order that is a permutation of the source pairs -/
theorem C19_hash_literal_perm (pairs : List (Str × Str × Pair)) :
    (pairs.mergeSort (fun a b => !(pairLt b a))).Perm pairs := List.mergeSort_perm _ _

/-- … and that order does not depend on the order in which the parser's map yields them: any two
    orders of the same pairs compile to the same sequence, provided only that two pairs with the same
    key text AND the same value text are the same pair (a key may be repeated - the compiler then
    orders the duplicates by their values; this is the repair of KF-26).  The hypothesis was where KF-36
    lived: pairs that print alike without being the same code.  Since its repair the compiler no longer
    starts from the map but from the written order (`C19_hash_literal_written_order` below, which needs
    no hypothesis); this theorem is what remains true of the fall-back for a literal that was not built
    by the parser. -/
theorem C19_hash_literal_order_free (ps ps' : List (Str × Str × Pair)) (hperm : ps.Perm ps')
    (hd : ∀ a ∈ ps, ∀ b ∈ ps, a.1 = b.1 → a.2.1 = b.2.1 → a = b) :
    ps.mergeSort (fun a b => !(pairLt b a)) = ps'.mergeSort (fun a b => !(pairLt b a)) := by
  have total : ∀ (a b : Str × Str × Pair), ((!(pairLt b a)) || (!(pairLt a b))) = true := by
    intro a b
    cases h : pairLt b a
    · simp
    · cases h' : pairLt a b
      · simp
      · have := pairLt_trans _ _ _ h h'
        rw [pairLt_irrefl] at this; cases this
  have trans : ∀ (a b c : Str × Str × Pair), (!(pairLt b a)) = true → (!(pairLt c b)) = true → (!(pairLt c a)) = true := by
    intro a b c h1 h2
    simp only [Bool.not_eq_true'] at *
    cases hca : pairLt c a
    · rfl
    · rcases pairLt_tri a b with hab | hba | ⟨e1, e2⟩
      · rw [pairLt_trans _ _ _ hca hab] at h2; cases h2
      · rw [hba] at h1; cases h1
      · rw [pairLt_congr a b c e1 e2, h2] at hca; cases hca
  apply List.Perm.eq_of_pairwise (le := fun a b => (!(pairLt b a)) = true)
  · intro a b ha hb h1 h2
    have ha' : a ∈ ps := (List.mergeSort_perm ps _).mem_iff.mp ha
    have hb' : b ∈ ps := hperm.mem_iff.mpr ((List.mergeSort_perm ps' _).mem_iff.mp hb)
    simp only [Bool.not_eq_true'] at h1 h2
    rcases pairLt_tri a b with hab | hba | ⟨e1, e2⟩
    · rw [hab] at h2; cases h2
    · rw [hba] at h1; cases h1
    · exact hd a ha' b hb' e1 e2
  · exact List.pairwise_mergeSort trans total ps
  · exact List.pairwise_mergeSort trans total ps'
  · exact (List.mergeSort_perm ps _).trans (hperm.trans (List.mergeSort_perm ps' _).symm)

theorem pairLe_total {α : Type} (a b : Str × Str × α) : ((!(pairLt b a)) || (!(pairLt a b))) = true := by
  cases h : pairLt b a
  · simp
  · cases h' : pairLt a b
    · simp
    · have := pairLt_trans _ _ _ h h'
      rw [pairLt_irrefl] at this; cases this

theorem pairLe_trans {α : Type} (a b c : Str × Str × α) (h1 : (!(pairLt b a)) = true) (h2 : (!(pairLt c b)) = true) :
    (!(pairLt c a)) = true := by
  simp only [Bool.not_eq_true'] at *
  cases hca : pairLt c a
  · rfl
  · rcases pairLt_tri a b with hab | hba | ⟨e1, e2⟩
    · rw [pairLt_trans _ _ _ hca hab] at h2; cases h2
    · rw [hba] at h1; cases h1
    · rw [pairLt_congr a b c e1 e2, h2] at hca; cases hca

/-- Since the repair of KF-36 the compiler sorts the pairs *as written* (the parser records the order of
    the keys) with a stable sort: the compile order is a function of the script, with no hypothesis on
    the pairs.  What the stable sort adds: two pairs that the order does not separate - the same key text
    and the same value text, which need NOT be the same code - are compiled in the order they were
    written. -/
theorem C19_hash_literal_written_order {α : Type} (ps : List (Str × Str × α)) (a b : Str × Str × α)
    (hw : [a, b].Sublist ps) (hab : pairLt b a = false) :
    [a, b].Sublist (ps.mergeSort (fun a b => !(pairLt b a))) := by
  apply List.pair_sublist_mergeSort (le := fun a b => !(pairLt b a)) pairLe_trans pairLe_total _ hw
  simp [hab]

/-- … in particular pairs which print alike stay in their written order -/
theorem C19_hash_literal_ties_keep_written_order {α : Type} (ps : List (Str × Str × α)) (a b : Str × Str × α)
    (hw : [a, b].Sublist ps) (e1 : a.1 = b.1) (e2 : a.2.1 = b.2.1) :
    [a, b].Sublist (ps.mergeSort (fun a b => !(pairLt b a))) := by
  apply C19_hash_literal_written_order ps a b hw
  rw [pairLt_congr a b b e1 e2, pairLt_irrefl]

/-- the sorted order itself -/
theorem C19_hash_literal_sorted {α : Type} (ps : List (Str × Str × α)) :
    (ps.mergeSort (fun a b => !(pairLt b a))).Pairwise (fun a b => pairLt b a = false) := by
  have := List.pairwise_mergeSort (le := fun a b => !(pairLt b a)) pairLe_trans pairLe_total ps
  simpa using this

/-- premises satisfiable, on the two pairs of KF-36 (the same texts, different code - here the payload):
    whichever is written first is compiled first -/
example : [((['k'], ['r'], 1) : Str × Str × Nat), (['k'], ['r'], 2)].Sublist
    ([(['k'], ['r'], 1), (['a'], ['z'], 0), (['k'], ['r'], 2)].mergeSort (fun a b => !(pairLt b a))) :=
  C19_hash_literal_ties_keep_written_order _ _ _ (by decide) rfl rfl
example : [((['k'], ['r'], 2) : Str × Str × Nat), (['k'], ['r'], 1)].Sublist
    ([(['k'], ['r'], 2), (['a'], ['z'], 0), (['k'], ['r'], 1)].mergeSort (fun a b => !(pairLt b a))) :=
  C19_hash_literal_ties_keep_written_order _ _ _ (by decide) rfl rfl

/-- the text of a hash literal (`HashLiteral.String()`, which the sort above reads when a hash literal
    is itself a key or a value) is the same for every order of its pairs -/
theorem C19_hash_literal_text_order_free (xs ys : List Str) (hperm : xs.Perm ys) :
    xs.mergeSort (fun a b => !(Str.lt b a)) = ys.mergeSort (fun a b => !(Str.lt b a)) := by
  have total : ∀ (a b : Str), ((!(Str.lt b a)) || (!(Str.lt a b))) = true := by
    intro a b
    cases h : Str.lt b a
    · simp
    · simp [Str.lt_asymm _ _ h]
  have trans : ∀ (a b c : Str), (!(Str.lt b a)) = true → (!(Str.lt c b)) = true → (!(Str.lt c a)) = true := by
    intro a b c h1 h2
    simp only [Bool.not_eq_true'] at *
    cases hca : Str.lt c a
    · rfl
    · rcases Str.lt_total a b with hab | hba | e
      · rw [Str.lt_trans _ _ _ hca hab] at h2; cases h2
      · rw [hba] at h1; cases h1
      · rw [e, h2] at hca; cases hca
  apply List.Perm.eq_of_pairwise (le := fun a b => (!(Str.lt b a)) = true)
  · intro a b _ _ h1 h2
    simp only [Bool.not_eq_true'] at h1 h2
    exact Str.eq_of_not_lt _ _ h2 h1
  · exact List.pairwise_mergeSort trans total xs
  · exact List.pairwise_mergeSort trans total ys
  · exact (List.mergeSort_perm xs _).trans (hperm.trans (List.mergeSort_perm ys _).symm)

/-! ### constants -/

/-- the constant pool is determined by the order of emission: adding a constant that is already
    present returns its index and leaves the pool unchanged -/
theorem C19_constants_dedup (st : Compiler.CState) (v : Value) (i : Nat)
    (h : Compiler.findConst st.consts v 0 = some i) : Compiler.addConstant st v = (i, st) := by
  simp [Compiler.addConstant, h]

theorem C19_constants_append (st : Compiler.CState) (v : Value)
    (h : Compiler.findConst st.consts v 0 = none) :
    Compiler.addConstant st v = (st.consts.length, { st with consts := st.consts ++ [v] }) := by
  simp [Compiler.addConstant, h]

example : DistinctKeys [.mk ⟨.INTEGER, 1⟩ (.int 1) (.str []), .mk ⟨.STRING, 7⟩ (.str ['1']) (.str [])] := by
  intro a ha b hb h1 h2
  simp at ha hb
  rcases ha with rfl | rfl <;> rcases hb with rfl | rfl <;> simp_all [HPair.hk, VType.rank]

end EvalFilter.Props.C19
