/-
  C19 — Preparing and running a script is deterministic.

  Everything in the model is a function, so determinism is about the places where
  the Go code iterates over a map (whose order Go randomises): `Hash.Entries`
  (printing, `keys`, iteration), the hash literal in the compiler, the function
  table in `vm.New` and in `Dump`.  Each is modelled as a function of a *list* in
  arbitrary order, and the theorems show the result does not depend on that order
  (for every permutation).  No object addresses exist in the model; that none is
  compared in the code is `identityComparisons = []` (C05).
-/
import EvalFilter.Model.Api
import EvalFilter.Proofs.StrOrder
import EvalFilter.Props.Tables

namespace EvalFilter.Props.C19
open EvalFilter

/-! ### the order used by `Hash.Entries` (ByName.Less, with the tie-break on the key's type) -/

def keyLe (a b : HPair) : Bool :=
  Value.entryLe (a.key.inspect, a.hk.ty, []) (b.key.inspect, b.hk.ty, [])

theorem keyLe_total (a b : HPair) : (keyLe a b || keyLe b a) = true := by
  unfold keyLe Value.entryLe
  simp only []
  rcases Str.lt_total a.key.inspect b.key.inspect with h | h | h
  · simp [h]
  · have := Str.lt_asymm _ _ h
    simp [h, this]
  · simp [h, Str.lt_irrefl]
    omega

theorem keyLe_trans (a b c : HPair) (h1 : keyLe a b = true) (h2 : keyLe b c = true) : keyLe a c = true := by
  unfold keyLe Value.entryLe at *
  simp only [] at *
  by_cases hab : Str.lt a.key.inspect b.key.inspect = true
  · by_cases hbc : Str.lt b.key.inspect c.key.inspect = true
    · simp [Str.lt_trans _ _ _ hab hbc]
    · have hbc' : Str.lt b.key.inspect c.key.inspect = false := by simpa using hbc
      have hcb : Str.lt c.key.inspect b.key.inspect = false := by
        cases hh : Str.lt c.key.inspect b.key.inspect
        · rfl
        · simp [hbc', hh] at h2
      have e := Str.eq_of_not_lt _ _ hbc' hcb
      rw [← e]; simp [hab]
  · have hab' : Str.lt a.key.inspect b.key.inspect = false := by simpa using hab
    have hba : Str.lt b.key.inspect a.key.inspect = false := by
      cases hh : Str.lt b.key.inspect a.key.inspect
      · rfl
      · simp [hab', hh] at h1
    have e := Str.eq_of_not_lt _ _ hab' hba
    simp only [hab', hba, Bool.false_eq_true, ↓reduceIte, decide_eq_true_eq] at h1
    rw [e]
    by_cases hbc : Str.lt b.key.inspect c.key.inspect = true
    · simp [hbc]
    · have hbc' : Str.lt b.key.inspect c.key.inspect = false := by simpa using hbc
      cases hcb : Str.lt c.key.inspect b.key.inspect
      · simp only [hbc', hcb, Bool.false_eq_true, ↓reduceIte, decide_eq_true_eq] at h2 ⊢
        omega
      · simp [hbc', hcb] at h2

/-- two pairs that compare equal both ways have the same printed key and the same key type -/
theorem keyLe_antisymm (a b : HPair) (h1 : keyLe a b = true) (h2 : keyLe b a = true) :
    a.key.inspect = b.key.inspect ∧ a.hk.ty.rank = b.hk.ty.rank := by
  unfold keyLe Value.entryLe at *
  simp only [] at *
  cases hab : Str.lt a.key.inspect b.key.inspect
  · cases hba : Str.lt b.key.inspect a.key.inspect
    · simp only [hab, hba, Bool.false_eq_true, ↓reduceIte, decide_eq_true_eq] at h1 h2
      exact ⟨Str.eq_of_not_lt _ _ hab hba, by omega⟩
    · simp [hab, hba] at h1
  · have := Str.lt_asymm _ _ hab
    simp [hab, this] at h2

/-- `Entries()` is sorted -/
theorem C19_entries_sorted (ps : List HPair) : (HashMapModel.entries ps).Pairwise (fun a b => keyLe a b = true) :=
  List.pairwise_mergeSort (le := keyLe) keyLe_trans keyLe_total ps

/-- The pairs of a hash have pairwise distinct (printed key, key type): what a Go
    `map[HashKey]HashPair` guarantees, because the HashKey is (type, hash of the printed form). -/
def DistinctKeys (ps : List HPair) : Prop :=
  ∀ a ∈ ps, ∀ b ∈ ps, a.key.inspect = b.key.inspect → a.hk.ty.rank = b.hk.ty.rank → a = b

/-- For every order in which Go may hand the pairs of a map to `Entries()`, the result is the same
    list: printing a hash, `keys()` and iteration do not depend on map iteration order. -/
theorem C19_entries_order_free (ps ps' : List HPair) (hperm : ps.Perm ps') (hd : DistinctKeys ps) :
    HashMapModel.entries ps = HashMapModel.entries ps' := by
  apply List.Perm.eq_of_pairwise (le := fun a b => keyLe a b = true)
  · intro a b ha hb h1 h2
    have ha' : a ∈ ps := (List.mergeSort_perm ps _).mem_iff.mp ha
    have hb' : b ∈ ps := hperm.mem_iff.mpr ((List.mergeSort_perm ps' _).mem_iff.mp hb)
    obtain ⟨e1, e2⟩ := keyLe_antisymm a b h1 h2
    exact hd a ha' b hb' e1 e2
  · exact C19_entries_sorted ps
  · exact C19_entries_sorted ps'
  · exact (List.mergeSort_perm ps _).trans (hperm.trans (List.mergeSort_perm ps' _).symm)

/-- hence the printed form of a hash does not depend on the order either -/
theorem C19_keys_order_free (ps ps' : List HPair) (hperm : ps.Perm ps') (hd : DistinctKeys ps) :
    (HashMapModel.entries ps).map HPair.key = (HashMapModel.entries ps').map HPair.key := by
  rw [C19_entries_order_free ps ps' hperm hd]

/-! ### the compiler's hash literal: pairs sorted by the text of the key -/

/-- the pairs of a hash literal are compiled in an order that is a permutation of the source pairs -/
theorem C19_hash_literal_perm (pairs : List (Str × Pair)) :
    (pairs.mergeSort (fun a b => !(Str.lt b.1 a.1))).Perm pairs := List.mergeSort_perm _ _

/-- … and when the keys have distinct texts, that order does not depend on the order in which the
    parser's map yields them -/
theorem C19_hash_literal_order_free (ps ps' : List (Str × Pair)) (hperm : ps.Perm ps')
    (hd : ∀ a ∈ ps, ∀ b ∈ ps, a.1 = b.1 → a = b) :
    ps.mergeSort (fun a b => !(Str.lt b.1 a.1)) = ps'.mergeSort (fun a b => !(Str.lt b.1 a.1)) := by
  have total : ∀ (a b : Str × Pair), ((!(Str.lt b.1 a.1)) || (!(Str.lt a.1 b.1))) = true := by
    intro a b
    cases h : Str.lt b.1 a.1
    · simp
    · simp [Str.lt_asymm _ _ h]
  have trans : ∀ (a b c : Str × Pair), (!(Str.lt b.1 a.1)) = true → (!(Str.lt c.1 b.1)) = true → (!(Str.lt c.1 a.1)) = true := by
    intro a b c h1 h2
    simp only [Bool.not_eq_true'] at *
    cases hca : Str.lt c.1 a.1
    · rfl
    · -- c < a and ¬ b < a, ¬ c < b: then a ≤ b ≤ c, contradiction
      rcases Str.lt_total a.1 b.1 with hab | hba | e
      · rcases Str.lt_total b.1 c.1 with hbc | hcb | e2
        · have := Str.lt_trans _ _ _ (Str.lt_trans _ _ _ hab hbc) hca
          rw [Str.lt_irrefl] at this; cases this
        · rw [hcb] at h2; cases h2
        · rw [e2] at hab
          have := Str.lt_trans _ _ _ hab hca
          rw [Str.lt_irrefl] at this; cases this
      · rw [hba] at h1; cases h1
      · rw [e] at hca
        rw [hca] at h2; cases h2
  apply List.Perm.eq_of_pairwise (le := fun a b => (!(Str.lt b.1 a.1)) = true)
  · intro a b ha hb h1 h2
    have ha' : a ∈ ps := (List.mergeSort_perm ps _).mem_iff.mp ha
    have hb' : b ∈ ps := hperm.mem_iff.mpr ((List.mergeSort_perm ps' _).mem_iff.mp hb)
    simp only [Bool.not_eq_true'] at h1 h2
    exact hd a ha' b hb' (Str.eq_of_not_lt _ _ h2 h1)
  · exact List.pairwise_mergeSort trans total ps
  · exact List.pairwise_mergeSort trans total ps'
  · exact (List.mergeSort_perm ps _).trans (hperm.trans (List.mergeSort_perm ps' _).symm)

/-! ### constants -/

/-- the constant pool is determined by the order of emission: adding a constant that is already
    present returns its index and leaves the pool unchanged -/
theorem C19_constants_dedup (st : Compiler.CState) (v : Value) (i : Nat)
    (h : Compiler.findConst st.consts v 0 = some i) : Compiler.addConstant st v = (i, st) := by
  simp [Compiler.addConstant, h]

theorem C19_constants_append (st : Compiler.CState) (v : Value)
    (h : Compiler.findConst st.consts v 0 = none) :
    Compiler.addConstant st v = (st.consts.length, { st with consts := st.consts ++ [v] }) := by
  simp [Compiler.addConstant, h]

example : DistinctKeys [.mk ⟨.INTEGER, 1⟩ (.int 1) (.str []), .mk ⟨.STRING, 7⟩ (.str ['1']) (.str [])] := by
  intro a ha b hb h1 h2
  simp at ha hb
  rcases ha with rfl | rfl <;> rcases hb with rfl | rfl <;> simp_all [HPair.hk, VType.rank]

end EvalFilter.Props.C19
