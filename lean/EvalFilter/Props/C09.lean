/-
  C09 — A deadline or cancellation stops any script promptly.

  The context is modelled as a poll oracle `done : Nat → Bool` indexed by the number
  of polls made so far.  The loop polls once before every instruction, at every
  call depth (a user-defined function runs through the same loop), so "promptly"
  is: no instruction executes after the poll that saw the cancellation.
  Wall-clock latency (how long one instruction takes, scheduling) is runtime
  behaviour the model cannot exhibit; the harness' S-cancel stream observes the
  real VM with a context that reports cancellation at its k-th `Done()` call.
-/
import EvalFilter.Proofs.VMFrame
import EvalFilter.Model.Api

namespace EvalFilter.Props.C09
open EvalFilter EvalFilter.VM

/-- If the context reports cancellation from its k-th poll on, a run started with fewer than k
    polls made stops at that poll: afterwards at most k+1 polls have been made in total - so at
    most k instructions were executed, none after the poll that saw the cancellation - and if the
    (k+1)-th poll was made the run ended with the timeout error.  This holds wherever the script is:
    top level, inside user-defined functions at any depth, inside nested loops (any byte code). -/
theorem C09_cancel_stops (k : Nat) (M : Machine) (hdone : ∀ n, k ≤ n → M.done n = true)
    (obj : HostVal) (fuel : Nat) (st : RunSt) (h : st.polls ≤ k) :
    (run M obj fuel st).2.polls ≤ k + 1 ∧
    ((run M obj fuel st).2.polls = k + 1 → (run M obj fuel st).1 = .error .timeout) := by
  unfold run
  split
  · exact ⟨by show st.polls ≤ k + 1; omega, fun hh => absurd hh (by show st.polls ≠ k + 1; omega)⟩
  · have hg := loop_good k M hdone obj fuel M.main 0 [] st h
    rw [finish_polls, finish_fst]
    unfold Good at hg
    rcases hg with hg | ⟨h1, h2⟩
    · exact ⟨by omega, fun hh => absurd hh (by omega)⟩
    · exact ⟨by omega, fun _ => h2⟩

/-- the same for the body of any user-defined function, i.e. for any code and any entry point -/
theorem C09_cancel_stops_anywhere (k : Nat) (M : Machine) (hdone : ∀ n, k ≤ n → M.done n = true)
    (obj : HostVal) (fuel : Nat) (code : Bytes) (ip : Nat) (stack : List Value) (st : RunSt) (h : st.polls ≤ k) :
    Good k (loop M obj code fuel ip stack st) :=
  loop_good k M hdone obj fuel code ip stack st h

/-- An already-expired context prevents execution altogether: no instruction runs, nothing is
    written, no variable changes, and the result is the timeout error. -/
theorem C09_expired_prevents (M : Machine) (obj : HostVal) (fuel : Nat) (st : RunSt)
    (hexp : M.done st.polls = true) (hmain : M.main ≠ []) :
    run M obj (fuel + 1) st =
      (.error .timeout, { st with polls := st.polls + 1, env := st.env.truncate st.env.scopes.length }) := by
  have hne : M.main.isEmpty = false := by cases h : M.main <;> simp_all
  have hlen : ¬ (0 ≥ M.main.length) := by
    cases h : M.main with
    | nil => exact absurd h hmain
    | cons _ _ => simp
  unfold run
  simp only [hne, Bool.false_eq_true, ↓reduceIte]
  unfold loop
  simp [hlen, hexp, finish]

/-- in particular nothing is written and the variables are untouched -/
theorem C09_expired_no_effect (M : Machine) (obj : HostVal) (fuel : Nat) (st : RunSt)
    (hexp : M.done st.polls = true) (hmain : M.main ≠ []) :
    (run M obj (fuel + 1) st).2.out = st.out ∧ (run M obj (fuel + 1) st).2.env.globals = st.env.globals := by
  rw [C09_expired_prevents M obj fuel st hexp hmain]
  simp [Env.truncate]

/-- `SetContext` before `Prepare`: the machine built by `Prepare` polls exactly the oracle it was given -/
theorem C09_context_reaches_vm (script : List Char) (opt : Bool) (env : Env) (fns : List (Str × FnImpl))
    (done : Nat → Bool) (p : Api.Prepared) (env' : Env)
    (h : Api.prepare script opt env fns done = .ok (p, env')) : p.machine.done = done := by
  unfold Api.prepare at h
  simp only [] at h
  split at h
  · cases h
  · split at h
    · cases h
    · simp only [Except.ok.injEq, Prod.mk.injEq] at h
      rw [← h.1]
      rfl

/-- non-vacuity: the hypotheses are satisfiable (a machine whose context is cancelled from poll 3 on) -/
example : ∃ M : Machine, (∀ n, 3 ≤ n → M.done n = true) ∧ M.done 2 = false :=
  ⟨{ consts := [], main := [], funcs := [], fns := [], done := fun n => decide (3 ≤ n) }, by simp, by simp⟩

end EvalFilter.Props.C09
