/-
  C08 — Bad scripts and odd objects produce errors, never a crash of the host.

  Every function of the model is total (Lean accepts no other), and every partial
  Go operation the model mirrors - slice indexing, type assertions, calling a method
  on a nil interface, integer division, reflection on the wrong kind - is an explicit
  `Err.panic` outcome of the modelled `vm.Run`, which `Execute`'s `recover()` turns
  into an error value.  The theorems below state the consequences that matter to a
  host; that the *Go* functions never panic into the caller on any input is then the
  correspondence (S-fuzz: random bytes, token soups, mutated and valid programs, odd
  host objects, run-time faults; an escaping panic or a dead worker process is a
  violation with the input as replay).

  Partial by nature: exhaustion of the Go stack or of memory (deeply nested or huge
  scripts) cannot be exhibited by a Lean model; the harness runs a deep/long-input
  stream in an isolated worker process and observes its exit status.
-/
import EvalFilter.Props.C07
import EvalFilter.Props.C04

namespace EvalFilter.Props.C08
open EvalFilter EvalFilter.VM

/-- `Prepare` is a total function of the script text: for every rune string it either reports an
    error or yields a prepared program -/
theorem C08_prepare_total (script : List Char) (opt : Bool) (env : Env) (fns : List (Str × FnImpl)) (done : Nat → Bool) :
    (∃ e, Api.prepare script opt env fns done = .error e) ∨ (∃ p, Api.prepare script opt env fns done = .ok p) := by
  cases h : Api.prepare script opt env fns done with
  | error e => exact Or.inl ⟨e, rfl⟩
  | ok p => exact Or.inr ⟨p, rfl⟩

/-- `Execute` returns a value or an error, for every prepared program, object and state; the
    panics of the Go code are the error `panic` (what `recover()` produces), not an escape -/
theorem C08_execute_total (M : Machine) (obj : HostVal) (st : RunSt) (fuel : Nat) :
    (∃ v, (Api.execute M obj st fuel).1 = .ok v) ∨ (∃ e, (Api.execute M obj st fuel).1 = .error e) := by
  cases h : (Api.execute M obj st fuel).1 with
  | ok v => exact Or.inl ⟨v, rfl⟩
  | error e => exact Or.inr ⟨e, rfl⟩

/-- a host object of a kind the engine cannot walk (not a struct, not a map, a nil pointer) makes a
    field lookup fail with the recovered panic - an error, not a crash -/
theorem C08_odd_object_is_error (env : Env) (name : Str) (h : env.get (Str.trimPrefix name ['$']) = none) :
    VM.lookup (.intV .int 5) env name = .error .panic ∧ VM.lookup .nilPtr env name = .error .panic ∧
    VM.lookup (.strV []) env name = .error .panic := by
  simp [VM.lookup, h, Reflect.fieldsOf, throw, throwThe, MonadExceptOf.throw]

/-- a field the engine cannot convert never yields Go's nil object (which `Run` would dereference) -/
theorem C08_fields_never_nil (hv : HostVal) (ro : Bool) (v : Value) (h : Reflect.toObject ro hv = .ok v) : v ≠ .nil :=
  Props.C04.toObject_ne_nil hv ro v h

/-- a host function that returns Go's nil ends the run with an error -/
theorem C08_nil_from_host_is_error (M : Machine) (obj : HostVal) (codeLen : Nat)
    (runBody : Bytes → RunSt → Res × RunSt) (next : Nat) (name : Str) (args below : List Value) (st : RunSt)
    (hl : lookupFn M name = some (.host .nilRet)) :
    step M obj codeLen runBody Op.call.toNat args.length next (.str name :: (args.reverse ++ below)) st =
      .halt (.error .panic) { st with out := st.out ++ hostMarker name args } := by
  have hpop : popN args.length (args.reverse ++ below) = some (args, below) := by
    simp [popN]
  simp [step, Op.ofNat?, Op.toNat, isBinary, Value.inspect, hpop, hl, callImpl]

/-- `panic()` in a script is an error of that run … -/
theorem C08_script_panic_is_error (args : List Value) : (Builtins.call "panic" args).res matches .panic := by
  simp [Builtins.call]

/-- … and the evaluator remains usable afterwards: whatever a run did, the next run starts from a
    clean machine (C07) -/
theorem C08_usable_after_error (M : Machine) (obj : HostVal) (fuel : Nat) (st : RunSt) (h : Props.C07.Clean st) :
    Props.C07.Clean (run M obj fuel st).2 := Props.C07.C07_run_leaves_clean M obj fuel st h

/-- stack underflow, bad constant index, jump out of bounds and unknown opcode are errors -/
theorem C08_internal_faults_are_errors (M : Machine) (obj : HostVal) (codeLen : Nat)
    (runBody : Bytes → RunSt → Res × RunSt) (arg next : Nat) (st : RunSt) :
    step M obj codeLen runBody Op.add.toNat arg next [] st = .halt (.error (.error "underflow")) st ∧
    step M obj codeLen runBody Op.return.toNat arg next [] st = .halt (.error (.error "underflow")) st ∧
    step M obj codeLen runBody 200 arg next [] st = .halt (.error (.error "unknownOpcode")) st ∧
    (arg ≥ codeLen → step M obj codeLen runBody Op.jump.toNat arg next [] st = .halt (.error (.error "ipOOB")) st) ∧
    (M.consts[arg]? = none → step M obj codeLen runBody Op.constant.toNat arg next [] st = .halt (.error (.error "badConstant")) st) := by
  refine ⟨?_, ?_, ?_, ?_, ?_⟩
  · simp [step, Op.ofNat?, Op.toNat, isBinary, err]
  · simp [step, Op.ofNat?, Op.toNat, isBinary, err]
  · simp [step, Op.ofNat?, err]
  · intro h; simp [step, Op.ofNat?, Op.toNat, isBinary, err, h]
  · intro h; simp [step, Op.ofNat?, Op.toNat, isBinary, err, h]

end EvalFilter.Props.C08
