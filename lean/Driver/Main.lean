/-
  Line-protocol driver: one case (an s-expression) per input line, one line of
  `key=value` pairs per case on output.  The Go harness produces the same lines
  from the real implementation and diffs them key by key.
-/
import EvalFilter.Model.Api
import EvalFilter.Model.WF
import EvalFilter.Model.OptCheck
import EvalFilter.Spec.Oracle

open EvalFilter

/-! ### s-expressions -/
inductive Sexp
  | atom (s : String)
  | list (xs : List Sexp)
  deriving Inhabited, Repr

partial def parseSexps (toks : List String) (acc : List Sexp) : List Sexp × List String :=
  match toks with
  | [] => (acc.reverse, [])
  | ")" :: rest => (acc.reverse, rest)
  | "(" :: rest =>
    let (inner, rest') := parseSexps rest []
    parseSexps rest' (.list inner :: acc)
  | a :: rest => parseSexps rest (.atom a :: acc)

def tokenizeLine (s : String) : List String :=
  let spaced := s.toList.flatMap (fun c => if c == '(' then [' ', '(', ' '] else if c == ')' then [' ', ')', ' '] else [c])
  ((String.ofList spaced).splitOn " ").filter (· ≠ "")

def parseLine (s : String) : Option Sexp :=
  match (parseSexps (tokenizeLine s) []).1 with
  | [x] => some x
  | _ => none

/-! ### hex -/
def hexDigit (n : Nat) : Char := if n < 10 then Char.ofNat (48 + n) else Char.ofNat (87 + n)
def hexOfBytes (bs : List UInt8) : String :=
  String.ofList (bs.flatMap (fun b => [hexDigit (b.toNat / 16), hexDigit (b.toNat % 16)]))
def hexOfStr (s : Str) : String := hexOfBytes (utf8Bytes s)
def hexVal (c : Char) : Nat :=
  if '0' ≤ c && c ≤ '9' then c.toNat - 48 else if 'a' ≤ c && c ≤ 'f' then c.toNat - 87
  else if 'A' ≤ c && c ≤ 'F' then c.toNat - 55 else 0
def bytesOfHex : List Char → List UInt8
  | a :: b :: rest => UInt8.ofNat (hexVal a * 16 + hexVal b) :: bytesOfHex rest
  | _ => []
/-- atoms of the form `#hex` -/
def strOfAtom (a : String) : Str :=
  match a.toList with
  | '#' :: h => Api.runesOfBytes (bytesOfHex h)
  | cs => cs

def Sexp.atom? : Sexp → Option String | .atom s => some s | _ => none
def Sexp.items : Sexp → List Sexp | .list xs => xs | _ => []
def Sexp.tag (s : Sexp) : String := match s with | .list (.atom t :: _) => t | _ => ""
def Sexp.args (s : Sexp) : List Sexp := match s with | .list (_ :: r) => r | _ => []
def Sexp.str (s : Sexp) : Str := match s with | .atom a => strOfAtom a | _ => []
def Sexp.int (s : Sexp) : Int := match s with | .atom a => a.toInt?.getD 0 | _ => 0
def Sexp.nat (s : Sexp) : Nat := s.int.toNat
def Sexp.find (s : Sexp) (tag : String) : Option Sexp := s.args.find? (fun x => x.tag == tag)

/-! ### decoding of values, host objects, host functions -/
partial def valueOf (s : Sexp) : Value :=
  match s.tag, s.args with
  | "int", [n] => .int (Int64.ofInt n.int)
  | "float", [b] => .float (Float.ofBits (UInt64.ofNat b.nat))
  | "str", [x] => .str x.str
  | "str", [] => .str []
  | "bool", [b] => .bool (b.nat == 1)
  | "null", _ => .null
  | "void", _ => .void
  | "regexp", [x] => .regexp x.str
  | "regexp", [] => .regexp []
  | "array", xs => .array (xs.map valueOf)
  | "hash", ps =>
      .hash (ps.foldl (fun acc p =>
        match p.items with
        | [k, v] =>
          let kv := valueOf k
          match kv.hashKey? with
          | some hk => HashMapModel.insert acc (.mk hk kv (valueOf v))
          | none => acc
        | _ => acc) [])
  | _, _ => .null

def intKindOf (s : String) : IntKind :=
  match s with
  | "int8" => .int8 | "int16" => .int16 | "int32" => .int32 | "int64" => .int64 | _ => .int

partial def hostValOf (s : Sexp) : HostVal :=
  match s.tag, s.args with
  | "nil", _ => .nilIface
  | "int", [k, n] => .intV (intKindOf (k.atom?.getD "int")) (Int64.ofInt n.int)
  | "uint", [n] => .uintV n.nat
  | "f32", [b] => .floatV true (Float.ofBits (UInt64.ofNat b.nat))
  | "f64", [b] => .floatV false (Float.ofBits (UInt64.ofNat b.nat))
  | "str", [x] => .strV x.str
  | "str", [] => .strV []
  | "bool", [b] => .boolV (b.nat == 1)
  | "time", [n] => .timeV (Int64.ofInt n.int)
  | "struct", fs =>
      .structV (fs.map (fun f => match f.args with
        | [n, e, v] => .mk n.str (e.nat == 1) (hostValOf v)
        | _ => .mk [] true .nilIface))
  | "slice", xs => .sliceV (xs.map hostValOf)
  | "map", ei :: es =>
      .mapV (ei.nat == 1) (es.map (fun e => match e.args with
        | [k, v] => .mk (hostValOf k) (hostValOf v)
        | _ => .mk .nilIface .nilIface))
  | "nilptr", _ => .nilPtr
  | "ptr", [x] => .ptrV (hostValOf x)
  | "iface", [x] => .ifaceV (hostValOf x)
  | "opaque", _ => .opaqueV
  | _, _ => .nilIface

def hostFnOf (s : Sexp) : VM.HostFn :=
  match s.tag, s.args with
  | "const", [v] => .const (valueOf v)
  | "arg", [i] => .arg i.nat
  | "sum", _ => .sumInts
  | "void", _ => .void
  | "list", _ => .listArgs
  | "nil", _ => .nilRet
  | "panic", _ => .panic
  | _, _ => .void

/-! ### rendering -/
def typeName (v : Value) : String := String.ofList ((v.type?.map VType.name).getD "NIL".toList)

def showValue (v : Value) : String := typeName v ++ ":" ++ hexOfStr v.inspect

def showRes (r : VM.Res) : String :=
  match r with
  | .ok v => "V:" ++ showValue v
  | .error (.error cls) => "E:" ++ cls
  | .error .panic => "E:panic"
  | .error .timeout => "E:timeout"
  | .error .outOfFuel => "X:fuel"
  | .error .unsupported => "X:unsupported"

def showTokens (ts : List Token) : String :=
  ",".intercalate (ts.map (fun t => t.ty.name ++ ":" ++ (if t.ty == .ILLEGAL then "" else hexOfStr t.lit)))

mutual
  partial def showExpr : Expr → String
    | .ident n => "id(" ++ hexOfStr n ++ ")"
    | .intLit l v => "int(" ++ hexOfStr l ++ "," ++ toString v.toInt ++ ")"
    | .floatLit l v => "float(" ++ hexOfStr l ++ "," ++ toString v.toBits ++ ")"
    | .boolLit b => if b then "true" else "false"
    | .strLit s => "str(" ++ hexOfStr s ++ ")"
    | .regexpLit _ v f => "re(" ++ hexOfStr v ++ "," ++ hexOfStr f ++ ")"
    | .arrayLit es => "arr(" ++ ",".intercalate (es.map showExpr) ++ ")"
    | .hashLit ps =>
        -- Go keeps the pairs in a map: compare them sorted by their rendering
        let rs := ps.map (fun p => match p with | .mk k v => showExpr k ++ ":" ++ showExpr v)
        "hash(" ++ ",".intercalate (rs.toArray.qsort (· < ·)).toList ++ ")"
    | .prefix op r => "pre(" ++ hexOfStr op ++ "," ++ showExpr r ++ ")"
    | .infix op l r => "in(" ++ hexOfStr op ++ "," ++ showExpr l ++ "," ++ showExpr r ++ ")"
    | .postfix n op => "post(" ++ hexOfStr n ++ "," ++ hexOfStr op ++ ")"
    | .ternary c t f => "tern(" ++ showExpr c ++ "," ++ showExpr t ++ "," ++ showExpr f ++ ")"
    | .index l i => "idx(" ++ showExpr l ++ "," ++ showExpr i ++ ")"
    | .call f as => "call(" ++ showExpr f ++ ";" ++ ",".intercalate (as.map showExpr) ++ ")"
    | .assign n v => "asg(" ++ hexOfStr n ++ "," ++ showExpr v ++ ")"
    | .ifE c a b => "if(" ++ showExpr c ++ "," ++ showBlock a ++ "," ++
        (match b with | none => "-" | some x => showBlock x) ++ ")"
    | .whileE c b => "while(" ++ showExpr c ++ "," ++ showBlock b ++ ")"
    | .foreachE i x v b => "each(" ++ hexOfStr i ++ "," ++ hexOfStr x ++ "," ++ showExpr v ++ "," ++ showBlock b ++ ")"
    | .switchE v cs => "sw(" ++ showExpr v ++ ";" ++ ",".intercalate (cs.map showCase) ++ ")"
    | .funcDef n ps b => "fn(" ++ hexOfStr n ++ ";" ++ ",".intercalate (ps.map hexOfStr) ++ ";" ++ showBlock b ++ ")"
    | .localE n => "local(" ++ hexOfStr n ++ ")"
  partial def showStmt : Stmt → String
    | .expr e => "e(" ++ showExpr e ++ ")"
    | .ret e => "ret(" ++ showExpr e ++ ")"
  partial def showBlock (ss : List Stmt) : String := "{" ++ ",".intercalate (ss.map showStmt) ++ "}"
  partial def showCase : Case → String
    | .mk d es b => (if d then "default" else "case(" ++ ",".intercalate (es.map showExpr) ++ ")") ++ showBlock b
end

def showConst (v : Value) : String := showValue v

def showFuncs (fs : List VM.UserFn) : String :=
  let rs := fs.map (fun f => hexOfStr f.name ++ ":" ++ ".".intercalate (f.params.map hexOfStr) ++ ":" ++ hexOfBytes f.code)
  ";".intercalate (rs.toArray.qsort (· < ·)).toList

def showGlobals (g : VM.Scope) : String :=
  let rs := g.map (fun (k, v) => hexOfStr k ++ ":" ++ showValue v)
  ",".intercalate (rs.toArray.qsort (· < ·)).toList

/-! ### one case -/
def runCase (c : Sexp) : String := Id.run do
  let id := match c.args with | .atom i :: _ => i | _ => "?"
  let script := match c.find "script" with | some s => (s.args.headD (.atom "")).str | none => []
  let optimize := match c.find "opt" with | some s => (s.args.headD (.atom "1")).nat == 1 | none => true
  let shows := match c.find "show" with | some s => s.args.filterMap Sexp.atom? | none => []
  let vars := match c.find "vars" with
    | some s => s.args.map (fun (p : Sexp) => match p.items with | [n, v] => (Sexp.str n, valueOf v) | _ => ([], Value.null))
    | none => []
  let fns := match c.find "fns" with
    | some s => s.args.map (fun (p : Sexp) => match p.items with | [n, f] => (Sexp.str n, VM.FnImpl.host (hostFnOf f)) | _ => ([], VM.FnImpl.host .void))
    | none => []
  let runs := match c.find "runs" with | some s => s.args | none => []
  let env0 : VM.Env := vars.foldl (fun e (n, v) => e.set n v) {}
  let allFns := Api.defaultFns ++ fns
  let mut out := id
  match Api.prepare script optimize env0 allFns (fun _ => false) with
  | .error e =>
    out := out ++ " prep=err"
    if shows.contains "tokens" then out := out ++ " tokens=" ++ showTokens (Lexer.lex script)
    if shows.contains "why" then
      out := out ++ " why=" ++ (match e with | .parse => "parse" | .compile ce => "compile:" ++ reprStr ce)
    return out
  | .ok (p, env) =>
    out := out ++ " prep=ok"
    if shows.contains "tokens" then out := out ++ " tokens=" ++ showTokens p.tokens
    if shows.contains "ast" then out := out ++ " ast=" ++ showBlock p.ast
    if shows.contains "code" then
      out := out ++ " consts=" ++ ",".intercalate (p.raw.consts.map showConst)
      out := out ++ " raw=" ++ hexOfBytes (encodeAll p.raw.main)
      out := out ++ " rawfns=" ++ showFuncs (p.raw.funcs.map (fun f => ⟨f.name, f.params, encodeAll f.code⟩))
      out := out ++ " main=" ++ hexOfBytes p.machine.main
      out := out ++ " fns=" ++ showFuncs p.machine.funcs
    if Stmt.vlos p.ast then out := out ++ " vlo=1"
    if shows.contains "wf" then
      let isStr := p.raw.consts.map (fun v => v.isType .STRING)
      let w1 := WF.check isStr (encodeAll p.raw.main) (p.raw.funcs.map (fun f => encodeAll f.code))
      let w2 := WF.check isStr p.machine.main (p.machine.funcs.map (·.code))
      let sh := fun (w : Option (Nat × WF.Bad)) => match w with | none => "ok" | some (k, b) => s!"bad:body{k}:" ++ b.show
      out := out ++ " wfraw=" ++ sh w1 ++ " wfopt=" ++ sh w2
    let mut st : VM.RunSt := { env := env }
    let mut i := 0
    let mut later : List (Str × VM.FnImpl) := []
    let mut machine := p.machine
    -- the runs; then, if the case says so, the same evaluator prepared AGAIN with another script (its variables
    -- stay, everything of the old script is gone) and the runs once more
    let again : Option (List Char) := match c.find "again" with | some s => some (s.args.headD (.atom "")).str | none => none
    for series in [0, 1] do
      if series == 1 then
        match again with
        | none => break
        | some script2 =>
          match Api.prepare script2 optimize st.env (allFns ++ later) (fun _ => false) with
          | .error _ => out := out ++ " prep2=err"; break
          | .ok (p2, env2) =>
            out := out ++ " prep2=ok"
            machine := p2.machine
            st := { st with env := env2 }
      for r in runs do
        let obj := match r.args with | o :: _ => hostValOf o | _ => HostVal.nilIface
        let polls : Int := match r.args with | _ :: p :: _ => p.int | _ => -1
        -- functions the host registers (again) just before this run: the last registration of a name wins
        let more := match r.args with
          | _ :: _ :: f :: _ => f.args.map (fun (p : Sexp) => match p.items with | [n, f] => (Sexp.str n, VM.FnImpl.host (hostFnOf f)) | _ => ([], VM.FnImpl.host .void))
          | _ => []
        later := later ++ more
        let M := { machine with fns := machine.fns ++ later, done := fun n => polls ≥ 0 && (n : Int) ≥ polls }
        let st0 : VM.RunSt := { env := st.env, out := [], polls := 0 }
        let (res, st') := Api.execute M obj st0
        st := st'
        out := out ++ s!" r{i}=" ++ showRes res
        out := out ++ s!" o{i}=" ++ hexOfStr st'.out
        out := out ++ s!" g{i}=" ++ showGlobals st'.env.globals
        out := out ++ s!" s{i}=" ++ toString st'.env.scopes.length
        out := out ++ s!" p{i}=" ++ toString st'.polls
        if shows.contains "spec" then
          out := out ++ s!" t{i}=" ++ (match res with | .ok v => (if v.truthy then "1" else "0") | _ => "-")
          let probe0 : List Str := ["v", "w", "x", "unset", "neverAssigned", "OPTIMIZE", "$v", "$neverAssigned"].map String.toList
          let probe := vars.foldl (fun acc (n, _) => if acc.contains n then acc else acc ++ [n]) probe0
          out := out ++ s!" a{i}=" ++ ",".intercalate (probe.map (fun n => hexOfStr n ++ ":" ++ showValue (Api.getVariable st'.env n)))
        i := i + 1
    return out

/-- `(wf ID (consts 0 1 …) (main #hex) (fn #hex) …)`: run the verifier on the bytes the implementation
    handed out; the hex atoms are raw bytes -/
def rawBytes (s : Sexp) : List UInt8 :=
  match s with
  | .atom a => (match a.toList with | '#' :: h => bytesOfHex h | _ => [])
  | _ => []

def runWf (c : Sexp) : String :=
  let id := match c.args with | .atom i :: _ => i | _ => "?"
  let consts := match c.find "consts" with | some s => s.args.map (fun a => a.nat == 1) | none => []
  let main := match c.find "main" with | some s => rawBytes (s.args.headD (.atom "")) | none => []
  let fns := (c.args.filter (fun x => x.tag == "fn")).map (fun s => rawBytes (s.args.headD (.atom "")))
  match WF.check consts main fns with
  | none => id ++ " wfimpl=ok"
  | some (k, b) => id ++ s!" wfimpl=bad:body{k}:" ++ b.show

/-- `(optv ID (body #raw #opt) …)`: validate every step the optimizer takes from the raw bytes the
    evaluator REALLY compiled, and compare the result with the optimised bytes it REALLY holds -/
def runOptv (c : Sexp) : String :=
  let id := match c.args with | .atom i :: _ => i | _ => "?"
  let bodies := (c.args.filter (fun x => x.tag == "body")).map (fun s =>
    (rawBytes (s.args.headD (.atom "")), rawBytes ((s.args.drop 1).headD (.atom ""))))
  let rec go (k : Nat) : List (Bytes × Bytes) → Option String
    | [] => none
    | (raw, opt) :: r =>
      match OptCheck.fullTrace raw with
      | none => some (s!"refused:body{k}:" ++ OptCheck.whyRefused raw)
      | some L => if OptCheck.lastOf raw L == opt then go (k + 1) r else some s!"differs:body{k}"
  let steps := (bodies.map (fun b => match OptCheck.fullTrace b.1 with | some L => L.length | none => 0)).foldl (· + ·) 0
  match go 0 bodies with
  | none => id ++ s!" optv=ok steps={steps}"
  | some w => id ++ " optv=" ++ w ++ s!" steps={steps}"

def runLine (line : String) : String :=
  match parseLine line with
  | none => "? bad-line"
  | some c =>
    match c.tag with
    | "case" => runCase c
    | "wf" => runWf c
    | "optv" => runOptv c
    | "oracle" => Spec.Oracle.run (c.args.map (fun a => match a with | .atom s => s | _ => ""))
    | _ => "? bad-op"

partial def mainLoop (h : IO.FS.Stream) (o : IO.FS.Stream) : IO Unit := do
  let line ← h.getLine
  if line.isEmpty then return ()
  let l := line.trimAscii.toString
  if !l.isEmpty then
    o.putStrLn (runLine l)
    o.flush
  mainLoop h o

def main : IO Unit := do
  mainLoop (← IO.getStdin) (← IO.getStdout)
