package main

// Whole-program facts obtained with go/types over the library packages
// (everything except cmd/ and _examples/): external references, identity
// comparisons on objects, in-place mutation sites, package-level variables
// and the lock discipline around them.

import (
	"fmt"
	"go/ast"
	"go/importer"
	"go/parser"
	"go/token"
	"go/types"
	"os"
	"path/filepath"
	"sort"
	"strings"
)

const modPath = "github.com/skx/evalfilter/v2"

var libPkgs = []string{"", "ast", "code", "environment", "lexer", "object", "parser", "stack", "token", "vm"}

type repoImporter struct {
	repo  string
	fset  *token.FileSet
	std   types.Importer
	cache map[string]*types.Package
	files map[string][]*ast.File
	infos map[string]*types.Info
}

func (ri *repoImporter) Import(path string) (*types.Package, error) { return ri.ImportFrom(path, "", 0) }

func (ri *repoImporter) ImportFrom(path, dir string, mode types.ImportMode) (*types.Package, error) {
	if !strings.HasPrefix(path, modPath) {
		return ri.std.Import(path)
	}
	if p, ok := ri.cache[path]; ok {
		return p, nil
	}
	rel := strings.TrimPrefix(strings.TrimPrefix(path, modPath), "/")
	d := filepath.Join(ri.repo, rel)
	ents, err := os.ReadDir(d)
	if err != nil {
		return nil, err
	}
	var files []*ast.File
	for _, e := range ents {
		n := e.Name()
		if e.IsDir() || !strings.HasSuffix(n, ".go") || strings.HasSuffix(n, "_test.go") {
			continue
		}
		f, err := parser.ParseFile(ri.fset, filepath.Join(d, n), nil, parser.ParseComments)
		if err != nil {
			return nil, err
		}
		// skip files guarded by a build tag that is off in normal builds (our own hooks)
		skip := false
		for _, cg := range f.Comments {
			if cg.Pos() < f.Package && strings.Contains(cg.Text(), "go:build verif") {
				skip = true
			}
		}
		if skip {
			continue
		}
		files = append(files, f)
	}
	info := &types.Info{Uses: map[*ast.Ident]types.Object{}, Defs: map[*ast.Ident]types.Object{},
		Types: map[ast.Expr]types.TypeAndValue{}, Selections: map[*ast.SelectorExpr]*types.Selection{}}
	conf := types.Config{Importer: ri, Error: func(err error) {}}
	pkg, err := conf.Check(path, ri.fset, files, info)
	if err != nil && pkg == nil {
		return nil, err
	}
	ri.cache[path] = pkg
	ri.files[path] = files
	ri.infos[path] = info
	return pkg, nil
}

func loadLib(repo string) *repoImporter {
	fset := token.NewFileSet()
	ri := &repoImporter{repo: repo, fset: fset, std: importer.ForCompiler(fset, "source", nil),
		cache: map[string]*types.Package{}, files: map[string][]*ast.File{}, infos: map[string]*types.Info{}}
	for _, p := range libPkgs {
		path := modPath
		if p != "" {
			path += "/" + p
		}
		if _, err := ri.ImportFrom(path, "", 0); err != nil {
			fail("type-check of %s failed: %v", path, err)
		}
	}
	return ri
}

func pkgShort(path string) string {
	s := strings.TrimPrefix(strings.TrimPrefix(path, modPath), "/")
	if s == "" {
		return "evalfilter"
	}
	return s
}

func isObjectType(t types.Type) bool {
	// the interface object.Object, or a pointer to a struct type declared in package object
	if p, ok := t.(*types.Pointer); ok {
		if n, ok := p.Elem().(*types.Named); ok && n.Obj().Pkg() != nil && n.Obj().Pkg().Path() == modPath+"/object" {
			_, isStruct := n.Underlying().(*types.Struct)
			return isStruct
		}
		return false
	}
	if n, ok := t.(*types.Named); ok && n.Obj().Pkg() != nil && n.Obj().Pkg().Path() == modPath+"/object" {
		_, isIface := n.Underlying().(*types.Interface)
		return isIface
	}
	return false
}

func genTypesFacts(repo string) string {
	ri := loadLib(repo)
	extRefs := map[string]bool{}
	imports := map[string]bool{}
	var identity, mutators, special []string
	type gvar struct{ name, pkg string }
	globals := map[string]*gvar{}
	var accesses []string

	paths := make([]string, 0, len(ri.files))
	for p := range ri.files {
		paths = append(paths, p)
	}
	sort.Strings(paths)
	for _, path := range paths {
		info := ri.infos[path]
		short := pkgShort(path)
		for _, f := range ri.files[path] {
			fname := filepath.Base(ri.fset.Position(f.Pos()).Filename)
			for _, im := range f.Imports {
				ip := strings.Trim(im.Path.Value, "\"")
				imports[short+"|"+ip] = true
				if ip == "C" || ip == "unsafe" {
					special = append(special, short+" imports "+ip)
				}
			}
			for _, cg := range f.Comments {
				if strings.Contains(cg.Text(), "go:linkname") {
					special = append(special, short+" uses go:linkname")
				}
			}
			// package-level variables
			for _, d := range f.Decls {
				gd, ok := d.(*ast.GenDecl)
				if !ok || gd.Tok != token.VAR {
					continue
				}
				for _, sp := range gd.Specs {
					vs := sp.(*ast.ValueSpec)
					for _, n := range vs.Names {
						if n.Name == "_" {
							continue
						}
						if obj := info.Defs[n]; obj != nil {
							globals[short+"."+n.Name] = &gvar{n.Name, short}
						}
					}
				}
			}
			// per function: external refs, identity comparisons, mutations, accesses to globals
			for _, d := range f.Decls {
				fd, ok := d.(*ast.FuncDecl)
				fnName := "(package level)"
				var body ast.Node = d
				if ok {
					fnName = fd.Name.Name
					if fd.Recv != nil && len(fd.Recv.List) == 1 {
						fnName = types.ExprString(fd.Recv.List[0].Type) + "." + fnName
					}
				}
				// lock tracking: positions between X.Lock()/RLock() and X.Unlock()/RUnlock() (or to the end
				// of the function when the unlock is deferred), by source order
				type span struct {
					lock      string
					from, to  token.Pos
				}
				var spans []span
				if ok && fd.Body != nil {
					open := map[string]token.Pos{}
					ast.Inspect(fd.Body, func(n ast.Node) bool {
						switch x := n.(type) {
						case *ast.DeferStmt:
							if se, ok := x.Call.Fun.(*ast.SelectorExpr); ok && (se.Sel.Name == "Unlock" || se.Sel.Name == "RUnlock") {
								l := types.ExprString(se.X)
								if from, ok := open[l]; ok {
									spans = append(spans, span{l, from, fd.Body.End()})
									delete(open, l)
								}
								return false
							}
						case *ast.CallExpr:
							if se, ok := x.Fun.(*ast.SelectorExpr); ok {
								l := types.ExprString(se.X)
								switch se.Sel.Name {
								case "Lock", "RLock":
									open[l] = x.End()
								case "Unlock", "RUnlock":
									if from, ok := open[l]; ok {
										spans = append(spans, span{l, from, x.Pos()})
										delete(open, l)
									}
								}
							}
						}
						return true
					})
				}
				lockAt := func(p token.Pos) string {
					for _, s := range spans {
						if s.from <= p && p < s.to {
							return s.lock
						}
					}
					return "-"
				}
				ast.Inspect(body, func(n ast.Node) bool {
					switch x := n.(type) {
					case *ast.Ident:
						obj := info.Uses[x]
						if obj == nil || obj.Pkg() == nil {
							return true
						}
						op := obj.Pkg().Path()
						if !strings.HasPrefix(op, modPath) {
							if _, isPkgName := obj.(*types.PkgName); !isPkgName {
								name := obj.Name()
								if fn, ok := obj.(*types.Func); ok {
									if sig := fn.Type().(*types.Signature); sig.Recv() != nil {
										rt := sig.Recv().Type().String()
										rt = strings.TrimPrefix(rt, "*")
										if i := strings.LastIndex(rt, "."); i >= 0 {
											rt = rt[i+1:]
										}
										name = rt + "." + name
									}
								} else if v, ok := obj.(*types.Var); ok && v.IsField() {
									return true
								}
								extRefs[short+"|"+op+"|"+name] = true
							}
						} else if v, ok := obj.(*types.Var); ok && !v.IsField() && v.Parent() == obj.Pkg().Scope() {
							// use of a package-level variable of the library
							key := pkgShort(op) + "." + v.Name()
							accesses = append(accesses, fmt.Sprintf("%s|%s|%s|%s", key, short+":"+fnName, accessKind(body, x), lockAt(x.Pos())))
						}
					case *ast.BinaryExpr:
						if x.Op == token.EQL || x.Op == token.NEQ {
							tx, ty := info.Types[x.X].Type, info.Types[x.Y].Type
							if tx != nil && ty != nil && isObjectType(tx) && isObjectType(ty) {
								identity = append(identity, fmt.Sprintf("%s/%s:%s %s", short, fname, fnName, types.ExprString(x)))
							}
						}
					case *ast.SwitchStmt:
						if x.Tag != nil {
							if t := info.Types[x.Tag].Type; t != nil && isObjectType(t) {
								identity = append(identity, fmt.Sprintf("%s/%s:%s switch %s", short, fname, fnName, types.ExprString(x.Tag)))
							}
						}
					case *ast.AssignStmt:
						for _, lhs := range x.Lhs {
							if m := mutationOf(info, lhs); m != "" {
								mutators = append(mutators, fmt.Sprintf("%s:%s %s", short, fnName, m))
							}
						}
					case *ast.IncDecStmt:
						if m := mutationOf(info, x.X); m != "" {
							mutators = append(mutators, fmt.Sprintf("%s:%s %s", short, fnName, m))
						}
					case *ast.CallExpr:
						if se, ok := x.Fun.(*ast.SelectorExpr); ok {
							switch se.Sel.Name {
							case "Increase", "Decrease", "Reset", "Next":
								if sel := info.Selections[se]; sel != nil && strings.Contains(sel.Obj().Pkg().Path(), modPath+"/object") {
									mutators = append(mutators, fmt.Sprintf("%s:%s call %s", short, fnName, se.Sel.Name))
								}
							}
						}
					}
					return true
				})
			}
		}
	}
	sortU := func(xs []string) []string {
		m := map[string]bool{}
		for _, x := range xs {
			m[x] = true
		}
		var out []string
		for x := range m {
			out = append(out, x)
		}
		sort.Strings(out)
		return out
	}
	keys := func(m map[string]bool) []string {
		var out []string
		for k := range m {
			out = append(out, k)
		}
		sort.Strings(out)
		return out
	}
	var gl []string
	for k := range globals {
		gl = append(gl, k)
	}
	sort.Strings(gl)

	var sb strings.Builder
	sb.WriteString("-- GENERATED by verif/extract (go/types over the library packages). Do not edit.\nnamespace EvalFilter.Generated\n\n")
	list := func(name, doc string, xs []string) {
		fmt.Fprintf(&sb, "/-- %s -/\ndef %s : List String := [\n", doc, name)
		for i, x := range xs {
			sep := ","
			if i == len(xs)-1 {
				sep = ""
			}
			fmt.Fprintf(&sb, "  %s%s\n", leanStr(x), sep)
		}
		sb.WriteString("]\n\n")
	}
	sb.WriteString("/-- every use of a symbol from outside the module: (library package, package path, symbol); non-test files, verif hooks excluded -/\ndef externalRefs : List (String × String × String) := [\n")
	ek := keys(extRefs)
	for i, k := range ek {
		parts := strings.SplitN(k, "|", 3)
		sep := ","
		if i == len(ek)-1 {
			sep = ""
		}
		fmt.Fprintf(&sb, "  (%s, %s, %s)%s\n", leanStr(parts[0]), leanStr(parts[1]), leanStr(parts[2]), sep)
	}
	sb.WriteString("]\n\n/-- every import: (library package, import path) -/\ndef libImports : List (String × String) := [\n")
	ik := keys(imports)
	for i, k := range ik {
		parts := strings.SplitN(k, "|", 2)
		sep := ","
		if i == len(ik)-1 {
			sep = ""
		}
		fmt.Fprintf(&sb, "  (%s, %s)%s\n", leanStr(parts[0]), leanStr(parts[1]), sep)
	}
	sb.WriteString("]\n\n")
	list("apiShapes", "the statements of Eval.Run, and the first two of Eval.Prepare, as source text", apiShapes(ri))
	list("specialFeatures", "cgo / unsafe / linkname uses", sortU(special))
	list("identityComparisons", "comparisons (==, !=, switch) between values of object types", sortU(identity))
	list("mutationSites", "in-place writes to fields of object values, and calls of Increase/Decrease/Reset/Next", sortU(mutators))
	list("packageVars", "package-level variables of the library", gl)
	sb.WriteString("/-- every use of a package-level variable: (variable, package:function, read|write, mutex held or \"-\", \"init\" if inside an init function else \"other\") -/\ndef packageVarAccesses : List (String × String × String × String × String) := [\n")
	acc := sortU(accesses)
	for i, a := range acc {
		parts := strings.Split(a, "|")
		sep := ","
		if i == len(acc)-1 {
			sep = ""
		}
		where := "other"
		if strings.HasSuffix(parts[1], ":init") {
			where = "init"
		}
		fmt.Fprintf(&sb, "  (%s, %s, %s, %s, %s)%s\n", leanStr(parts[0]), leanStr(parts[1]), leanStr(parts[2]), leanStr(parts[3]), leanStr(where), sep)
	}
	sb.WriteString("]\n\n")
	sb.WriteString("end EvalFilter.Generated\n")
	return sb.String()
}

// accessKind: is this identifier written (assignment target, map element store) or read?
func accessKind(root ast.Node, id *ast.Ident) string {
	kind := "read"
	ast.Inspect(root, func(n ast.Node) bool {
		switch x := n.(type) {
		case *ast.AssignStmt:
			for _, l := range x.Lhs {
				if containsIdent(l, id) {
					kind = "write"
				}
			}
		case *ast.IncDecStmt:
			if containsIdent(x.X, id) {
				kind = "write"
			}
		case *ast.CallExpr:
			if fn, ok := x.Fun.(*ast.Ident); ok && fn.Name == "delete" && len(x.Args) > 0 && containsIdent(x.Args[0], id) {
				kind = "write"
			}
		}
		return true
	})
	return kind
}

func containsIdent(e ast.Expr, id *ast.Ident) bool {
	found := false
	ast.Inspect(e, func(n ast.Node) bool {
		if n == id {
			found = true
		}
		return !found
	})
	return found
}

// mutationOf: "field X of T" when lhs is a selector expression writing a field of a type declared in package object
func mutationOf(info *types.Info, lhs ast.Expr) string {
	se, ok := lhs.(*ast.SelectorExpr)
	if !ok {
		return ""
	}
	sel := info.Selections[se]
	if sel == nil || sel.Kind() != types.FieldVal {
		return ""
	}
	recv := sel.Recv().String()
	if !strings.Contains(recv, modPath+"/object.") {
		return ""
	}
	recv = strings.TrimPrefix(recv, "*")
	return "write " + recv[strings.LastIndex(recv, ".")+1:] + "." + se.Sel.Name
}


// apiShapes renders the top-level statements of (*Eval).Run and the head of (*Eval).Prepare.
func apiShapes(ri *repoImporter) []string {
	var out []string
	for _, f := range ri.files[modPath] {
		for _, d := range f.Decls {
			fd, ok := d.(*ast.FuncDecl)
			if !ok || fd.Recv == nil || fd.Body == nil {
				continue
			}
			if fd.Name.Name != "Run" && fd.Name.Name != "Prepare" {
				continue
			}
			for i, st := range fd.Body.List {
				if fd.Name.Name == "Prepare" && i >= 2 {
					break
				}
				txt := stmtText(ri.fset, st)
				out = append(out, fmt.Sprintf("%s/%d: %s", fd.Name.Name, i, txt))
			}
		}
	}
	return out
}

func stmtText(fset *token.FileSet, st ast.Stmt) string {
	switch x := st.(type) {
	case *ast.IfStmt:
		return "if " + types.ExprString(x.Cond) + " {…}"
	case *ast.ExprStmt:
		return types.ExprString(x.X)
	case *ast.DeferStmt:
		return "defer " + types.ExprString(x.Call)
	case *ast.AssignStmt:
		var l, r []string
		for _, e := range x.Lhs {
			l = append(l, types.ExprString(e))
		}
		for _, e := range x.Rhs {
			r = append(r, types.ExprString(e))
		}
		return strings.Join(l, ", ") + " " + x.Tok.String() + " " + strings.Join(r, ", ")
	case *ast.ReturnStmt:
		var r []string
		for _, e := range x.Results {
			r = append(r, types.ExprString(e))
		}
		return "return " + strings.Join(r, ", ")
	}
	return fmt.Sprintf("%T", st)
}
