package main

import (
	"fmt"
	"os"
	"path/filepath"
)

func writeFile(dir, name, content string) {
	p := filepath.Join(dir, name)
	if err := os.WriteFile(p, []byte(content), 0o644); err != nil {
		fmt.Fprintln(os.Stderr, "extract:", err)
		os.Exit(2)
	}
}

func main() {
	if len(os.Args) < 3 {
		fmt.Fprintln(os.Stderr, "usage: extract <repo> <outdir>")
		os.Exit(2)
	}
	out := os.Args[2]
	os.MkdirAll(out, 0o755)
	repo := os.Args[1]
	writeFile(out, "Unicode.lean", genUnicode())
	writeFile(out, "Opcodes.lean", genOpcodes(repo))
	writeFile(out, "Tokens.lean", genTokens(repo))
	writeFile(out, "LexerTables.lean", genLexer(repo))
	writeFile(out, "ParserTables.lean", genParser(repo))
	writeFile(out, "CompilerTables.lean", genCompiler(repo))
	writeFile(out, "Builtins.lean", genBuiltins(repo))
	writeFile(out, "TypeFacts.lean", genTypesFacts(repo))
}
