package main

// Direct oracles: relations between IMPL lines that the property itself demands
// (no model involved).  They drive the search for failing inputs and confirm
// every reported input on the real code.

import (
	"encoding/hex"
	"fmt"
	"sort"
	"strings"
)

func runKeys(kv map[string]string, prefix string) []string {
	var ks []string
	for k := range kv {
		if strings.HasPrefix(k, prefix) && len(k) > len(prefix) && k[len(prefix)] >= '0' && k[len(prefix)] <= '9' {
			ks = append(ks, k)
		}
	}
	sort.Strings(ks)
	return ks
}

func RunOracles(prop string, cases []GenCase, impl map[string]map[string]string) []OracleViolation {
	var out []OracleViolation
	viol := func(gc *GenCase, oracle, detail string) {
		out = append(out, OracleViolation{ID: gc.Case.ID, Stream: gc.Stream, Oracle: oracle, Detail: detail, Case: gc.Case.Sexp(), Script: gc.Case.Script})
	}
	groups := map[string][]*GenCase{}
	for i := range cases {
		gc := &cases[i]
		kv, ok := impl[gc.Case.ID]
		if !ok {
			continue
		}
		if gc.Pair != "" && gc.Pair != "self" {
			groups[gc.Stream+"/"+gc.Pair] = append(groups[gc.Stream+"/"+gc.Pair], gc)
		}
		switch {
		case gc.Role == "must-fail":
			if kv["prep"] != "err" {
				viol(gc, "invalid-script-accepted", "Prepare accepted an invalid script: prep="+kv["prep"])
			}
		case gc.Stream == "S-invalid" && gc.Role == "" && has(gc.Case.Tags, "valid-context"):
			if kv["prep"] != "ok" {
				viol(gc, "valid-context-rejected", "harness self-check: a valid script was rejected")
			}
		case strings.HasPrefix(gc.Role, "expect:"):
			want := "V:STRING:" + strings.TrimPrefix(gc.Role, "expect:")
			if kv["prep"] != "ok" || kv["r0"] != want {
				viol(gc, "string-literal-value", fmt.Sprintf("want r0=%s got prep=%s r0=%s", want, kv["prep"], kv["r0"]))
			}
		case gc.Role == "agree:pairs":
			// the result is an array [x0, y0, x1, y1, …]: every built-in answer next to the answer of the
			// language's own operators
			if kv["prep"] != "ok" || !strings.HasPrefix(kv["r0"], "V:ARRAY:") {
				viol(gc, "builtin-disagrees-with-operators", "expected an array result, got prep="+kv["prep"]+" r0="+kv["r0"])
				break
			}
			txt := unhex(strings.TrimPrefix(kv["r0"], "V:ARRAY:"))
			els := strings.Split(strings.TrimSuffix(strings.TrimPrefix(txt, "["), "]"), ", ")
			if len(els)%2 != 0 {
				viol(gc, "builtin-disagrees-with-operators", "odd number of elements: "+txt)
				break
			}
			for i := 0; i+1 < len(els); i += 2 {
				// min/max return one of their arguments: compare the printed forms (an int and a float of the
				// same value print differently, which is what "the smaller ARGUMENT" means)
				if els[i] != els[i+1] {
					viol(gc, "builtin-disagrees-with-operators", fmt.Sprintf("element %d: built-in says %s, the language's <= says %s (%s)", i/2, els[i], els[i+1], txt))
					break
				}
			}
		case gc.Role == "expecttrue":
			if kv["prep"] != "ok" || kv["r0"] != "V:BOOLEAN:"+hexs("true") {
				viol(gc, "builtin-contract", "the script states a documented contract and must return true: got prep="+kv["prep"]+" r0="+kv["r0"])
			}
		case strings.HasPrefix(gc.Role, "expectint:"):
			want := "V:INTEGER:" + hexs(strings.TrimPrefix(gc.Role, "expectint:"))
			if kv["prep"] != "ok" || kv["r0"] != want {
				viol(gc, "number-literal-value", fmt.Sprintf("an integer literal must denote its decimal value: want r0=%s got prep=%s r0=%s", want, kv["prep"], kv["r0"]))
			}
		case strings.HasPrefix(gc.Role, "trace:"):
			parts := strings.SplitN(strings.TrimPrefix(gc.Role, "trace:"), ":", 2)
			wantO, wantR := parts[0], ""
			if len(parts) > 1 {
				wantR = parts[1]
			}
			if kv["prep"] != "ok" || kv["o0"] != wantO || (wantR != "" && kv["r0"] != wantR) {
				viol(gc, "control-flow-trace", fmt.Sprintf("want calls=%s result=%s; got prep=%s calls=%s result=%s", wantO, wantR, kv["prep"], kv["o0"], kv["r0"]))
			}
		case gc.Role == "history":
			for _, rk := range runKeys(kv, "r") {
				i := rk[1:]
				if _, has := kv["f"+i]; !has {
					continue
				}
				if kv["r"+i] != kv["f"+i] || kv["o"+i] != kv["h"+i] || kv["g"+i] != kv["j"+i] {
					viol(gc, "used-vs-fresh", fmt.Sprintf("run %s on the used evaluator: %s out=%s vars=%s; on a fresh evaluator with the same variables: %s out=%s vars=%s",
						i, kv["r"+i], kv["o"+i], kv["g"+i], kv["f"+i], kv["h"+i], kv["j"+i]))
					break
				}
				if kv["p"+i] != kv["q"+i] {
					viol(gc, "cost-grows", fmt.Sprintf("run %s took %s instruction polls on the used evaluator and %s on a fresh one", i, kv["p"+i], kv["q"+i]))
					break
				}
				if kv["s"+i] != "0" {
					viol(gc, "scopes-left-open", fmt.Sprintf("run %s left %s scopes open", i, kv["s"+i]))
					break
				}
			}
		case gc.Role == "cancel":
			k := gc.Case.Runs[0].Polls
			var p int
			fmt.Sscanf(kv["p0"], "%d", &p)
			if kv["prep"] == "ok" {
				if p > k+1 {
					viol(gc, "ran-past-cancellation", fmt.Sprintf("cancelled at poll %d but %d polls were made (r0=%s)", k, p, kv["r0"]))
				} else if p == k+1 && kv["r0"] != "E:timeout" {
					viol(gc, "cancellation-ignored", fmt.Sprintf("the %d-th poll reported cancellation but the run ended with %s", k, kv["r0"]))
				}
				if k == 0 && kv["o0"] != "" {
					viol(gc, "expired-context-executed", "an already-expired context did not prevent execution: output "+kv["o0"])
				}
			}
		}
		for _, ek := range runKeys(kv, "e") {
			if kv[ek] != "" {
				viol(gc, "wrote-to-standard-error", fmt.Sprintf("run %s wrote to standard error: %q", ek[1:], truncate(unhex(kv[ek]), 200)))
				break
			}
		}
		switch {
		case gc.Role == "replica":
			// the same script on the same object from the same variables gives the same outcome: when the first
			// run left no variable behind (the evaluator holds exactly what it held before), the second run of
			// the same prepared script on the same object starts from the same state
			if g0, has := kv["g0"]; has && g0 == "" && len(gc.Case.Vars) == 0 {
				if _, two := kv["r1"]; two && (kv["r1"] != kv["r0"] || kv["o1"] != kv["o0"] || kv["g1"] != g0) {
					viol(gc, "nondeterminism", fmt.Sprintf("run 0: r=%s o=%s   run 1 (same object, same variables: none): r=%s o=%s g=%s", kv["r0"], kv["o0"], kv["r1"], kv["o1"], kv["g1"]))
				}
			}
		case gc.Role == "repeat":
			rs := runKeys(kv, "r")
			for _, rk := range rs[1:] {
				if kv[rk] != kv[rs[0]] {
					viol(gc, "literal-or-alias-changed", fmt.Sprintf("%s=%s but %s=%s", rs[0], kv[rs[0]], rk, kv[rk]))
					break
				}
			}
		case gc.Role == "api":
			for _, tk := range runKeys(kv, "t") {
				i := tk[1:]
				b, has := kv["b"+i]
				if !has {
					continue
				}
				want := map[string]string{"1": "1", "0": "0", "-": "E"}[kv[tk]]
				if b != want {
					viol(gc, "run-vs-execute", fmt.Sprintf("run %s: Execute gives %s (truth %s) but Run gives %s", i, kv["r"+i], kv[tk], b))
					break
				}
			}
		}
	}
	keys := make([]string, 0, len(groups))
	for k := range groups {
		keys = append(keys, k)
	}
	sort.Strings(keys)
	for _, gk := range keys {
		g := groups[gk]
		first := g[0]
		fkv := impl[first.Case.ID]
		for _, gc := range g[1:] {
			kv := impl[gc.Case.ID]
			var cmp []string
			oracle := "pair"
			switch {
			case first.Stream == "S-prec":
				cmp = []string{"prep", "ast", "r0"}
				oracle = "parenthesisation-changes-meaning"
			case first.Role == "plain" && gc.Role == "relaid":
				cmp = []string{"prep", "tokens"}
				oracle = "layout-changes-tokens"
			case first.Role == "opt" || first.Role == "raw":
				cmp = []string{"prep"}
				for _, p := range []string{"r", "o", "g", "s", "k"} {
					cmp = append(cmp, runKeys(fkv, p)...)
				}
				oracle = "optimizer-changes-behaviour"
			case first.Role == "replica":
				for k := range fkv {
					cmp = append(cmp, k)
				}
				sort.Strings(cmp)
				oracle = "nondeterminism"
			case strings.HasPrefix(first.Pair, "truth-"):
				cmp = []string{"t0"}
				oracle = "truth-positions-disagree"
				if b, has := kv["b0"]; has {
					want := map[string]string{"1": "1", "0": "0", "-": "E"}[fkv["t0"]]
					if b != want {
						viol(gc, oracle, fmt.Sprintf("%s (%s): truth %s   vs   %s (%s): Run returns %s   [%s | %s]", first.Case.ID, first.Role, fkv["t0"],
							gc.Case.ID, gc.Role, b, truncate(first.Case.Script, 200), truncate(gc.Case.Script, 200)))
					}
				}
			default:
				continue
			}
			for _, k := range cmp {
				if fkv[k] != kv[k] {
					viol(gc, oracle, fmt.Sprintf("%s (%s): %s=%s   vs   %s (%s): %s=%s   [%s | %s]", first.Case.ID, first.Role, k, truncate(fkv[k], 300),
						gc.Case.ID, gc.Role, k, truncate(kv[k], 300), truncate(first.Case.Script, 200), truncate(gc.Case.Script, 200)))
					break
				}
			}
		}
	}
	return out
}

func unhex(h string) string {
	b, err := hex.DecodeString(h)
	if err != nil {
		return ""
	}
	return string(b)
}
