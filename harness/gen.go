package main

// Generators.  Every random choice derives from one splitmix64 state.

import (
	"fmt"
	"strings"
)

type GenCase struct {
	Case       Case
	Stream     string
	NonTrivial bool            // counts towards distinct_nontrivial
	ModelFree  bool            // IMPL-only case (direct oracle), not compared with the model
	IgnoreKeys map[string]bool // first letters of keys not to compare with the model
	Pair       string          // cases with the same non-empty Pair are related by an oracle
	Role       string          // role inside the pair
}

const defaultPolls = 20000

// ---------- standard host object ----------

func stdObject(r *Rng) HV {
	return HV{Kind: "struct", Fields: []HField{
		{"Count", true, HV{Kind: "int", IntKind: "int", I: int64(r.Intn(7)) - 2}},
		{"Big", true, HV{Kind: "int", IntKind: "int64", I: Pick(r, []int64{0, 1, 65534, 65535, 65536, 70000, -70000, 1 << 40})}},
		{"Score", true, HV{Kind: "f64", F: Pick(r, []float64{0, 0.5, 1.5, -2.25, 10, 3})}},
		{"Name", true, HV{Kind: "str", S: Pick(r, []string{"", "bob", "Alice", "héllo wörld", "a b c", "10"})}},
		{"Flag", true, HV{Kind: "bool", B: r.Bool()}},
		{"Off", true, HV{Kind: "bool", B: false}},
		{"Tags", true, HV{Kind: "slice", ElemKind: "str", Els: strEls(r)}},
		{"Nums", true, HV{Kind: "slice", ElemKind: "int", IntKind: "int", Els: intEls(r)}},
	}}
}

func strEls(r *Rng) []HV {
	n := r.Intn(4)
	var out []HV
	for i := 0; i < n; i++ {
		out = append(out, HV{Kind: "str", S: Pick(r, []string{"x", "yy", "Zed", "é", ""})})
	}
	return out
}
func intEls(r *Rng) []HV {
	n := r.Intn(4)
	var out []HV
	for i := 0; i < n; i++ {
		out = append(out, HV{Kind: "int", IntKind: "int", I: int64(r.Intn(9)) - 3})
	}
	return out
}

// ---------- program generator ----------

type G struct {
	r        *Rng
	tags     map[string]bool
	vars     []string // names assigned so far (any type)
	funcs    []fnInfo
	depth    int
	inLoop   int // inside foreach: only value-less statements
	inFunc   bool
	chaos    int  // percentage of deliberately ill-typed operands
	noPrint  bool
	noSqrt   bool
	counters int
}

type fnInfo struct {
	name  string
	arity int
	value bool // returns a value on every path
}

func (g *G) tag(t string) { g.tags[t] = true }

var namePool = []string{"a", "b", "c", "n", "x", "y", "s", "t"}
var fieldPool = []string{"Count", "Big", "Score", "Name", "Flag", "Off", "Tags", "Nums", "Missing"}

func (g *G) intLit() string {
	switch g.r.Intn(10) {
	case 0:
		return Pick(g.r, []string{"65534", "65535", "65536", "70000", "100000"})
	case 1:
		return Pick(g.r, []string{"0", "1", "2"})
	case 2:
		return "9223372036854775807"
	}
	return fmt.Sprint(g.r.Intn(20))
}

func (g *G) floatLit() string {
	return Pick(g.r, []string{"0.5", "1.5", "2.0", "3.25", "10.0", "0.1", "100.75", "65535.5", "0.0"})
}

func (g *G) strLit() string {
	s := Pick(g.r, []string{"", "a", "b", "ab", "abc", "A", "hello", "héllo", "x y", "10", "9", "日本", "a,b,c", "Zed"})
	q := "\""
	if g.r.Chance(20) {
		q = "'"
	}
	return q + s + q
}

func (g *G) regexLit() string {
	return Pick(g.r, []string{"/a/", "/^a/", "/b$/", "/[0-9]+/", "/h.llo/", "/A/i", "/x|y/", "/(ab)+c?/", "/^$/", "/\\./"})
}

// expression of (roughly) the given type: int float str bool array hash any
func (g *G) expr(ty string, d int) string {
	if g.chaos > 0 && g.r.Chance(g.chaos) {
		ty = Pick(g.r, []string{"int", "float", "str", "bool", "array", "hash", "null", "regexp"})
		g.tag("ill-typed")
	}
	if d <= 0 {
		return g.atom(ty)
	}
	switch ty {
	case "int":
		switch g.r.Intn(14) {
		case 0, 1:
			return g.atom("int")
		case 2:
			g.tag("op+")
			return g.expr("int", d-1) + " + " + g.expr("int", d-1)
		case 3:
			g.tag("op-")
			return g.expr("int", d-1) + " - " + g.expr("int", d-1)
		case 4:
			g.tag("op*")
			return g.expr("int", d-1) + " * " + g.expr("int", d-1)
		case 5:
			g.tag("op/")
			return g.expr("int", d-1) + " / " + Pick(g.r, []string{"1", "2", "3", "7", g.expr("int", d-1)})
		case 6:
			g.tag("op%")
			return g.expr("int", d-1) + " % " + Pick(g.r, []string{"2", "3", "5", g.atom("int")})
		case 7:
			g.tag("op**")
			return Pick(g.r, []string{"2", "3", "10"}) + " ** " + Pick(g.r, []string{"0", "1", "2", "3", "5"})
		case 8:
			g.tag("paren")
			return "(" + g.expr("int", d-1) + ")"
		case 9:
			g.tag("neg")
			return "-" + g.atom("int")
		case 10:
			g.tag("len")
			return "len(" + g.expr(Pick(g.r, []string{"str", "array", "hash"}), d-1) + ")"
		case 11:
			g.tag("ternary")
			return "(" + g.expr("bool", d-1) + " ? " + g.expr("int", d-1) + " : " + g.expr("int", d-1) + ")"
		case 12:
			g.tag("index")
			return g.expr("array", d-1) + "[" + g.expr("int", 0) + "]"
		default:
			g.tag("minmax")
			return Pick(g.r, []string{"min", "max"}) + "(" + g.expr("int", d-1) + ", " + g.expr("int", d-1) + ")"
		}
	case "float":
		switch g.r.Intn(7) {
		case 0:
			return g.atom("float")
		case 1:
			g.tag("mixed-arith")
			return g.expr("int", d-1) + Pick(g.r, []string{" + ", " - ", " * "}) + g.expr("float", d-1)
		case 2:
			g.tag("mixed-arith")
			return g.expr("float", d-1) + Pick(g.r, []string{" + ", " - ", " * "}) + g.expr("int", d-1)
		case 3:
			g.tag("float-div")
			return g.expr("float", d-1) + " / " + Pick(g.r, []string{"2", "0.5", "4.0", g.atom("float")})
		case 4:
			if g.noSqrt {
				return g.atom("float")
			}
			g.tag("sqrt")
			return "√" + Pick(g.r, []string{"4", "9", "16", "2.25", "0", "1"})
		case 5:
			return "(" + g.expr("float", d-1) + ")"
		default:
			return g.expr("float", d-1) + Pick(g.r, []string{" + ", " - ", " * "}) + g.expr("float", d-1)
		}
	case "str":
		switch g.r.Intn(9) {
		case 0, 1:
			return g.atom("str")
		case 2:
			g.tag("concat")
			return g.expr("str", d-1) + " + " + g.expr("str", d-1)
		case 3:
			g.tag("str-builtin")
			return Pick(g.r, []string{"lower", "upper", "trim", "string", "type"}) + "(" + g.expr("any", d-1) + ")"
		case 4:
			g.tag("str-index")
			return g.expr("str", d-1) + "[" + g.expr("int", 0) + "]"
		case 5:
			g.tag("join")
			return "join(" + g.expr("array", d-1) + ", " + g.strLit() + ")"
		case 6:
			g.tag("ternary")
			return "(" + g.expr("bool", d-1) + " ? " + g.expr("str", d-1) + " : " + g.expr("str", d-1) + ")"
		case 7:
			g.tag("sprintf")
			return "sprintf(\"%s-%d\", " + g.expr("str", d-1) + ", " + g.expr("int", d-1) + ")"
		default:
			return "(" + g.expr("str", d-1) + ")"
		}
	case "bool":
		switch g.r.Intn(13) {
		case 0:
			return g.atom("bool")
		case 1, 2:
			g.tag("cmp-int")
			return g.expr("int", d-1) + Pick(g.r, []string{" < ", " <= ", " > ", " >= ", " == ", " != "}) + g.expr("int", d-1)
		case 3:
			g.tag("cmp-mixed")
			return g.expr("int", d-1) + Pick(g.r, []string{" < ", " <= ", " > ", " >= ", " == ", " != "}) + g.expr("float", d-1)
		case 4:
			g.tag("cmp-str")
			return g.expr("str", d-1) + Pick(g.r, []string{" < ", " <= ", " > ", " >= ", " == ", " != "}) + g.expr("str", d-1)
		case 5:
			g.tag("and")
			return g.expr("bool", d-1) + " && " + g.expr(Pick(g.r, []string{"bool", "bool", "int", "str"}), d-1)
		case 6:
			g.tag("or")
			return g.expr("bool", d-1) + " || " + g.expr(Pick(g.r, []string{"bool", "bool", "int", "str"}), d-1)
		case 7:
			g.tag("bang")
			return "!" + g.atom(Pick(g.r, []string{"bool", "bool", "int", "str", "any"}))
		case 8:
			g.tag("match")
			return g.expr("str", d-1) + Pick(g.r, []string{" ~= ", " !~ "}) + g.regexLit()
		case 9:
			g.tag("in-array")
			return g.expr(Pick(g.r, []string{"int", "str"}), d-1) + " in " + g.expr("array", d-1)
		case 10:
			g.tag("in-str")
			return g.strLit() + " in " + g.expr("str", d-1)
		case 11:
			g.tag("between")
			return "between(" + g.expr("int", d-1) + ", " + g.expr("int", d-1) + ", " + g.expr("int", d-1) + ")"
		default:
			return "(" + g.expr("bool", d-1) + ")"
		}
	case "array":
		switch g.r.Intn(7) {
		case 0:
			return g.atom("array")
		case 1, 2:
			g.tag("array-lit")
			n := g.r.Intn(4)
			var es []string
			et := Pick(g.r, []string{"int", "str", "any"})
			for i := 0; i < n; i++ {
				es = append(es, g.expr(et, d-1))
			}
			return "[" + strings.Join(es, ", ") + "]"
		case 3:
			g.tag("range")
			// bounds stay small: a range of billions is outside the property (memory)
			return "(" + Pick(g.r, []string{"0", "1", "2", "Count", "-1", "3"}) + ".." + Pick(g.r, []string{"0", "1", "3", "5", "Count", "10"}) + ")"
		case 4:
			g.tag("split")
			return "split(" + g.expr("str", d-1) + ", " + Pick(g.r, []string{"\",\"", "\" \"", "\"\"", "\"b\""}) + ")"
		case 5:
			g.tag("sort")
			return Pick(g.r, []string{"sort", "reverse"}) + "(" + g.expr("array", d-1) + Pick(g.r, []string{"", "", ", true", ", false"}) + ")"
		default:
			g.tag("keys")
			return "keys(" + g.expr("hash", d-1) + ")"
		}
	case "hash":
		g.tag("hash-lit")
		n := g.r.Intn(4)
		var ps []string
		used := map[string]bool{}
		for i := 0; i < n; i++ {
			k := Pick(g.r, []string{"\"a\"", "\"b\"", "\"k\"", "1", "2", "1.5", "\"1\"", "\"zz\""})
			if used[k] {
				continue
			}
			used[k] = true
			ps = append(ps, k+": "+g.expr(Pick(g.r, []string{"int", "str", "bool"}), d-1))
		}
		return "{" + strings.Join(ps, ", ") + "}"
	case "null":
		return "Missing"
	case "regexp":
		return g.regexLit()
	default:
		return g.expr(Pick(g.r, []string{"int", "float", "str", "bool", "array", "hash"}), d)
	}
}

func (g *G) atom(ty string) string {
	// a variable or field of the right (hoped-for) type, or a literal
	switch ty {
	case "int":
		switch g.r.Intn(6) {
		case 0:
			g.tag("field")
			return Pick(g.r, []string{"Count", "Big"})
		case 1:
			if len(g.vars) > 0 {
				g.tag("var")
				return Pick(g.r, g.vars)
			}
		}
		return g.intLit()
	case "float":
		if g.r.Chance(30) {
			g.tag("field")
			return "Score"
		}
		return g.floatLit()
	case "str":
		if g.r.Chance(30) {
			g.tag("field")
			return "Name"
		}
		return g.strLit()
	case "bool":
		switch g.r.Intn(5) {
		case 0:
			g.tag("field")
			return Pick(g.r, []string{"Flag", "Off"})
		case 1:
			return "true"
		case 2:
			return "false"
		}
		return Pick(g.r, []string{"true", "false", "Flag"})
	case "array":
		if g.r.Chance(50) {
			g.tag("field")
			return Pick(g.r, []string{"Tags", "Nums"})
		}
		return Pick(g.r, []string{"[]", "[1, 2, 3]", "[\"a\", \"b\"]", "[1, \"a\", 2.5, true]"})
	case "hash":
		return Pick(g.r, []string{"{}", "{\"a\": 1}", "{\"a\": 1, \"b\": \"x\"}", "{1: \"one\", \"1\": \"uno\"}"})
	case "null":
		return "Missing"
	case "regexp":
		return g.regexLit()
	}
	return g.atom(Pick(g.r, []string{"int", "float", "str", "bool", "array", "hash", "null"}))
}

func (g *G) newVar() string {
	v := Pick(g.r, namePool)
	for _, x := range g.vars {
		if x == v {
			return v
		}
	}
	g.vars = append(g.vars, v)
	return v
}

func indent(n int) string { return strings.Repeat("  ", n) }

// a value-less statement (leaves nothing on the value stack)
func (g *G) stmt(d int, ind int) string {
	pad := indent(ind)
	max := 12
	if d <= 0 {
		max = 5
	}
	switch g.r.Intn(max) {
	case 0, 1:
		g.tag("assign")
		e := g.expr("any", 2)
		return pad + g.newVar() + " = " + e + ";\n"
	case 2:
		if len(g.vars) > 0 {
			g.tag("compound-assign")
			v := Pick(g.r, g.vars)
			return pad + v + Pick(g.r, []string{" += ", " -= ", " *= ", " /= "}) + g.expr(Pick(g.r, []string{"int", "int", "float"}), 1) + ";\n"
		}
		fallthrough
	case 3:
		if len(g.vars) > 0 {
			g.tag("postfix")
			v := Pick(g.r, g.vars)
			return pad + v + Pick(g.r, []string{"++", "--"}) + ";\n"
		}
		fallthrough
	case 4:
		if g.noPrint {
			return pad + g.newVar() + " = " + g.expr("int", 1) + ";\n"
		}
		g.tag("trace-call")
		if g.r.Bool() {
			return pad + "print(" + g.expr("any", 1) + ");\n"
		}
		return pad + "rec(" + g.expr("any", 1) + ");\n"
	case 5:
		g.tag("if")
		s := pad + "if (" + g.expr(Pick(g.r, []string{"bool", "bool", "any"}), 2) + ") {\n" + g.block(d-1, ind+1) + pad + "}"
		for g.r.Chance(25) {
			g.tag("else-if")
			s += " else if (" + g.expr("bool", 1) + ") {\n" + g.block(d-1, ind+1) + pad + "}"
		}
		if g.r.Chance(40) {
			g.tag("else")
			s += " else {\n" + g.block(d-1, ind+1) + pad + "}"
		}
		return s + "\n"
	case 6:
		g.tag("while")
		g.counters++
		c := fmt.Sprintf("i%d", g.counters)
		kw := Pick(g.r, []string{"while", "for"})
		return pad + c + " = 0;\n" + pad + kw + " (" + c + " < " + fmt.Sprint(g.r.Intn(4)) + ") {\n" + g.block(d-1, ind+1) + indent(ind+1) + c + "++;\n" + pad + "}\n"
	case 7:
		g.tag("foreach")
		it := g.expr(Pick(g.r, []string{"array", "array", "str", "hash", "array"}), 1)
		hdr := "foreach " + Pick(g.r, namePool)
		if g.r.Chance(40) {
			g.tag("foreach-index")
			hdr = "foreach " + Pick(g.r, []string{"i", "k", "idx"}) + ", " + Pick(g.r, namePool)
		}
		g.inLoop++
		body := g.block(d-1, ind+1)
		g.inLoop--
		return pad + hdr + " in " + it + " {\n" + body + pad + "}\n"
	case 8:
		g.tag("switch")
		s := pad + "switch (" + g.expr(Pick(g.r, []string{"int", "str", "any"}), 1) + ") {\n"
		n := g.r.Intn(3)
		hasDef := false
		for i := 0; i <= n; i++ {
			if !hasDef && g.r.Chance(25) {
				hasDef = true
				g.tag("switch-default")
				s += indent(ind+1) + Pick(g.r, []string{"default", "case default"}) + " {\n" + g.block(d-1, ind+2) + indent(ind+1) + "}\n"
				continue
			}
			ce := g.expr(Pick(g.r, []string{"int", "str"}), 0)
			if g.r.Chance(25) {
				g.tag("switch-multi")
				ce += ", " + g.expr(Pick(g.r, []string{"int", "str"}), 0)
			}
			if g.r.Chance(15) {
				g.tag("switch-regexp")
				ce = g.regexLit()
			}
			s += indent(ind+1) + "case " + ce + " {\n" + g.block(d-1, ind+2) + indent(ind+1) + "}\n"
		}
		return s + pad + "}\n"
	case 9:
		if len(g.funcs) > 0 {
			f := Pick(g.r, g.funcs)
			var as []string
			n := f.arity
			if g.chaos > 0 && g.r.Chance(5) {
				n++
				g.tag("arg-mismatch")
			}
			for i := 0; i < n; i++ {
				as = append(as, g.expr("any", 1))
			}
			g.tag("call-user")
			if f.value {
				return pad + g.newVar() + " = " + f.name + "(" + strings.Join(as, ", ") + ");\n"
			}
		}
		fallthrough
	case 10:
		if g.r.Chance(30) {
			g.tag("return")
			return pad + "return " + g.expr("any", 2) + ";\n"
		}
		fallthrough
	default:
		g.tag("assign")
		return pad + g.newVar() + " = " + g.expr("any", 2) + ";\n"
	}
}

func (g *G) block(d int, ind int) string {
	n := 1 + g.r.Intn(3)
	var sb strings.Builder
	for i := 0; i < n; i++ {
		sb.WriteString(g.stmt(d, ind))
	}
	return sb.String()
}

func (g *G) function(idx int) string {
	name := fmt.Sprintf("f%d", idx)
	arity := g.r.Intn(3)
	var ps []string
	for i := 0; i < arity; i++ {
		ps = append(ps, Pick(g.r, namePool))
	}
	// distinct parameter names
	seen := map[string]bool{}
	var ps2 []string
	for _, p := range ps {
		if !seen[p] {
			seen[p] = true
			ps2 = append(ps2, p)
		}
	}
	ps = ps2
	saved := g.vars
	g.vars = append(append([]string{}, g.vars...), ps...)
	g.inFunc = true
	var sb strings.Builder
	sb.WriteString("function " + name + "(" + strings.Join(ps, ", ") + ") {\n")
	if g.r.Chance(40) {
		g.tag("local")
		lv := Pick(g.r, namePool)
		sb.WriteString("  local " + lv + ";\n  " + lv + " = " + g.expr("int", 1) + ";\n")
	}
	sb.WriteString(g.block(2, 1))
	value := g.r.Chance(75)
	if value {
		sb.WriteString("  return " + g.expr("any", 2) + ";\n")
	}
	sb.WriteString("}\n")
	g.inFunc = false
	g.vars = saved
	g.funcs = append(g.funcs, fnInfo{name, len(ps), value})
	g.tag("function")
	return sb.String()
}

// program returns a whole script.
func (g *G) program(nFuncs int, nStmts int, depth int) string {
	var sb strings.Builder
	var defs []string
	for i := 0; i < nFuncs; i++ {
		defs = append(defs, g.function(i))
	}
	early := g.r.Chance(50)
	if early {
		for _, d := range defs {
			sb.WriteString(d)
		}
	}
	for i := 0; i < nStmts; i++ {
		sb.WriteString(g.stmt(depth, 0))
	}
	if g.r.Chance(80) {
		sb.WriteString("return " + g.expr("any", 2) + ";\n")
	} else {
		g.tag("fall-off-end")
	}
	if !early {
		g.tag("call-before-definition")
		for _, d := range defs {
			sb.WriteString(d)
		}
	}
	return sb.String()
}

func newG(r *Rng) *G { return &G{r: r, tags: map[string]bool{}} }

func (g *G) tagList() []string {
	var out []string
	for t := range g.tags {
		out = append(out, t)
	}
	return out
}

func recFn() HostFn { return HostFn{Name: "rec", Kind: "void"} }

// smoke: a few fixed scripts used to validate the plumbing.
var smokeScripts = []string{
	"return 1 + 2 * 3;",
	"x = 70000; x++; return x;",
	"return Name + \"!\";",
	"if (Count > 0) { return \"pos\"; } else if (Count == 0) { return \"zero\"; } return \"neg\";",
	"n = 0; foreach i, v in [10, 20, 30] { n = n + i * v; } return n;",
	"function f(n) { if (n <= 1) { return 1; } return f(n - 1) * n; } return f(5);",
	"switch (Name) { case \"bob\" { return 1; } case /^A/ { return 2; } default { return 3; } }",
	"return [1.5 + 1, 7 / 2, 7 % 3, 2 ** 10, 1 / 2.0, \"a\" < \"b\", 3 in [1,2,3], \"el\" in \"hello\"];",
	"return {\"a\": 1, 2: \"b\", 1.5: true};",
	"h = {\"b\": 2, \"a\": 1}; s = \"\"; foreach k, v in h { s = s + k; } return s + string(len(h));",
	"return sort([\"b\", \"A\", \"c\"], true);",
	"return 1 / 0;",
	"return Missing;",
	"x = 3; while (x > 0) { print(x); x--; } return x;",
	"return \"héllo\"[1];",
	"return (Flag ? 1 : 2) + 10;",
	"a = 1; a += 2 * 3; return a;",
	"return len(Tags) + len(Nums);",
	"return √16 + 1;",
	"return 3 * 4 == 12 && 2 + 2 != 5;",
}

func genSmoke(seed uint64) []GenCase {
	r := NewRng(seed)
	var out []GenCase
	for i, s := range smokeScripts {
		for _, opt := range []bool{true, false} {
			c := Case{ID: fmt.Sprintf("smoke-%d-%v", i, opt), Script: s, Opt: opt, Show: []string{"tokens", "ast", "code"},
				Fns: []HostFn{recFn()}, Runs: []Run{{Obj: stdObject(r), Polls: defaultPolls}, {Obj: stdObject(r), Polls: defaultPolls}}}
			out = append(out, GenCase{Case: c, Stream: "smoke", NonTrivial: true})
		}
	}
	return out
}

// genPrograms: random structured programs.
func genPrograms(stream string, seed uint64, n int, chaos int, show []string) []GenCase {
	r := NewRng(seed)
	var out []GenCase
	for i := 0; i < n; i++ {
		g := newG(r.Fork())
		g.chaos = chaos
		script := g.program(g.r.Intn(3), 1+g.r.Intn(5), 2)
		rr := r.Fork()
		c := Case{ID: fmt.Sprintf("%s-%d", stream, i), Script: script, Opt: rr.Chance(60), Show: show,
			Fns: []HostFn{recFn()}, Tags: g.tagList()}
		nr := 1 + rr.Intn(2)
		for k := 0; k < nr; k++ {
			c.Runs = append(c.Runs, Run{Obj: stdObject(rr), Polls: defaultPolls})
		}
		out = append(out, GenCase{Case: c, Stream: stream, NonTrivial: len(g.tags) >= 3})
	}
	return out
}

// Generate returns the cases of a property's streams for a tier.
func Generate(prop, tier string, seed uint64) []GenCase {
	scale := 1
	if tier == "thorough" {
		scale = 15
	}
	var out []GenCase
	switch prop {
	case "smoke":
		out = genSmoke(seed)
	case "prog":
		out = genPrograms("S-prog", seed, 300*scale, 5, []string{"tokens", "ast", "code"})
	case "C01":
		out = genOps("S-ops", tier == "thorough", binaryOps)
		out = append(out, genExprs("S-expr", seed, 1500*scale, 8)...)
	case "C05":
		out = genTruth("S-truth")
		out = append(out, genOps("S-ops-logic", tier == "thorough", []string{"&&", "||"})...)
	case "C16":
		out = genContainers("S-cont", seed, 100*scale)
	case "C17":
		out = genBuiltinCalls("S-builtin", seed, 12*scale)
	case "C12":
		out = genPrec("S-prec", seed, 300*scale, tier == "thorough")
	case "C13":
		dm := 3
		if tier == "thorough" {
			dm = 6
		}
		out = genInvalid("S-invalid", seed, 60*scale, dm)
	case "C14":
		out = genLex("S-lex", seed, 400*scale)
	case "C08":
		out = genFuzz("S-fuzz", seed, 500*scale)
	case "C03":
		out = genOpt("S-opt", seed, 300*scale)
		out = append(out, genOptKnown("S-opt-known", seed)...)
	case "C02":
		out = genCtlTemplates("S-ctl-templates", seed)
		out = append(out, genCtlExpect("S-ctl-expect", seed+2)...)
		out = append(out, genCtlKnown("S-ctl-known", seed+3)...)
		out = append(out, genSizeLimit("S-ctl-size", NewRng(seed+4))...)
		out = append(out, genHostStrings("S-ctl-hoststr")...)
		out = append(out, genCtl("S-ctl", seed+1, 400*scale, []string{"code"})...)
	case "C06":
		out = genFn("S-fn", seed, 300*scale)
	case "C07":
		out = genHist("S-hist", seed, 150*scale)
	case "C09":
		out = genCancel("S-cancel", seed, 40*scale)
	case "C15":
		out = genAlias("S-alias", seed, 100*scale)
	case "C19":
		out = genDet("S-det", seed, 40*scale, 8)
		out = append(out, genDetKnown("S-det-known", seed+1, 24)...)
	case "C20":
		out = genApi("S-api", seed, 150*scale)
	case "C04":
		out = genRefl("S-refl", seed, 40*scale)
	case "C18":
		out = genCtl("S-wf", seed, 400*scale, []string{"code", "wf"})
		out = append(out, genOpt("S-wf-opt", seed+2, 100*scale)...)
		out = append(out, genFn("S-wf-fn", seed+3, 100*scale)...)
		out = append(out, genWfShapes("S-wf-shapes", seed+4)...)
		out = append(out, genWfKnown("S-wf-known", seed+5)...)
	case "C10":
		out = genBuiltinCalls("S-builtin", seed, 6*scale)
		out = append(out, genPrograms("S-prog", seed+1, 100*scale, 5, nil)...)
		for i := range out {
			// standard error is watched too: the library has no business there
			out[i].Case.Show = append(out[i].Case.Show, "stderr")
			if out[i].IgnoreKeys == nil {
				out[i].IgnoreKeys = map[string]bool{}
			}
			out[i].IgnoreKeys["e"] = true
		}
	default:
		out = genSmoke(seed)
	}
	out = append(genRegress(prop, seed+99), out...)
	return out
}

