package main

// Runs one case against the real library (in-process, build tag verif) and
// renders the same key=value line as the Lean driver.

import (
	"reflect"
	"context"
	"encoding/hex"
	"fmt"
	"io"
	"os"
	"regexp"
	"sort"
	"strings"
	"time"

	evalfilter "github.com/skx/evalfilter/v2"
	"github.com/skx/evalfilter/v2/ast"
	"github.com/skx/evalfilter/v2/environment"
	"github.com/skx/evalfilter/v2/lexer"
	"github.com/skx/evalfilter/v2/object"
	"github.com/skx/evalfilter/v2/parser"
	"github.com/skx/evalfilter/v2/token"
)

// ---- counting context: Done() reports cancellation from its k-th call on ----

type pollCtx struct {
	calls  int
	budget int // -1 = never
	closed chan struct{}
	open   chan struct{}
	far    bool // report a deadline far in the future (the context is still cancelled by Done(), earlier)
}

func newPollCtx() *pollCtx {
	c := &pollCtx{budget: -1, closed: make(chan struct{}), open: make(chan struct{})}
	close(c.closed)
	return c
}
func (c *pollCtx) reset(budget int) { c.calls = 0; c.budget = budget }
func (c *pollCtx) Deadline() (time.Time, bool) {
	if c.far {
		return time.Now().Add(24 * time.Hour), true
	}
	return time.Time{}, false
}
func (c *pollCtx) Done() <-chan struct{} {
	n := c.calls
	c.calls++
	if c.budget >= 0 && n >= c.budget {
		return c.closed
	}
	return c.open
}
func (c *pollCtx) Err() error {
	if c.budget >= 0 && c.calls > c.budget {
		return context.Canceled
	}
	return nil
}
func (c *pollCtx) Value(key interface{}) interface{} { return nil }

// ---- stdout capture ----

var realStdout = os.Stdout
var capFile *os.File

func captureStart() {
	if capFile == nil {
		f, err := os.CreateTemp("/dev/shm", "verif-cap-*")
		if err != nil {
			f, err = os.CreateTemp("", "verif-cap-*")
			if err != nil {
				panic(err)
			}
		}
		os.Remove(f.Name())
		capFile = f
	}
	capFile.Truncate(0)
	capFile.Seek(0, io.SeekStart)
	os.Stdout = capFile
	if capErrFile == nil {
		f, err := os.CreateTemp("/dev/shm", "verif-cape-*")
		if err != nil {
			f, err = os.CreateTemp("", "verif-cape-*")
			if err != nil {
				panic(err)
			}
		}
		os.Remove(f.Name())
		capErrFile = f
	}
	capErrFile.Truncate(0)
	capErrFile.Seek(0, io.SeekStart)
	os.Stderr = capErrFile
}

// what the library wrote to standard error since the last captureStart (it must not write there at all)
var realStderr = os.Stderr
var capErrFile *os.File
var capturedStderr string

func captureStop() string {
	os.Stdout = realStdout
	os.Stderr = realStderr
	capFile.Seek(0, io.SeekStart)
	b, _ := io.ReadAll(capFile)
	capErrFile.Seek(0, io.SeekStart)
	eb, _ := io.ReadAll(capErrFile)
	capturedStderr += string(eb)
	return string(b)
}

var noiseRe = []*regexp.Regexp{
	regexp.MustCompile(`Failed to reflect on [^\n]*\n`),
	regexp.MustCompile(`Failed to convert array-member to object`),
	regexp.MustCompile("(?s)Invalid regular expression .*? error parsing regexp: [^`]*`[^`]*`"),
	regexp.MustCompile(`Warning: Invalid opcode 0x[0-9A-F]+\n`),
}

func stripNoise(s string) string {
	for _, re := range noiseRe {
		s = re.ReplaceAllString(s, "")
	}
	return s
}

// ---- error classes ----

var errClasses = []struct{ sub, cls string }{
	{"error during Run:", "panic"},
	{"returned nil", "panic"}, // a host function that hands back nil: the same class as the crash it used to be
	{"maximum call depth", "callDepth"},
	{"attempted division by zero", "div0"},
	{"type mismatch", "typeMismatch"},
	{"unknown operator", "unknownOperator"},
	{"operand for 'in' must be an array", "inNotArray"},
	{"index operator must be given an integer", "indexType"},
	{"the index operator can only be applied", "indexTarget"},
	{"unusable as hash key", "hashKey"},
	{"unsupported type for negation", "negType"},
	{"unsupported type for square-root", "sqrtType"},
	{"argument for the start of the range", "rangeStart"},
	{"argument for the end of the range", "rangeEnd"},
	{"the start of a range must be smaller", "rangeOrder"},
	{"doesn't implement the Iterable interface", "notIterable"},
	{"mismatch in argument-counts", "argCount"},
	{"Pop from an empty stack", "underflow"},
	{"access to constant which doesn't exist", "badConstant"},
	{"instruction pointer is out of bounds", "ipOOB"},
	{"unhandled opcode", "unknownOpcode"},
	{"the bytecode program is empty", "emptyProgram"},
	{"timeout during execution", "timeout"},
	{"doesn't implement the Increment() interface", "incType"},
	{"doesn't implement the Decrement() interface", "decType"},
	{"attempt to RemoveScope", "removeScope"},
	{"failed to lookup match-function", "matchLookup"},
	{"does not exist", "noSuchFunction"},
}

func classify(err error) string {
	msg := err.Error()
	for _, c := range errClasses {
		if strings.Contains(msg, c.sub) {
			return c.cls
		}
	}
	return "other"
}

// ---- rendering ----

func hexs(s string) string { return hex.EncodeToString([]byte(s)) }

func showValue(o object.Object) string {
	if o == nil {
		return "NIL:"
	}
	if rv := reflect.ValueOf(o); rv.Kind() == reflect.Ptr && rv.IsNil() {
		return "NILPTR:" // a nil pointer of an object type handed out as a value: the harness must not trip over it
	}
	return string(o.Type()) + ":" + hexs(o.Inspect())
}

var tokNames = map[token.Type]string{
	token.AND: "AND", token.ASSIGN: "ASSIGN", token.ASTERISK: "ASTERISK", token.ASTERISKEQUALS: "ASTERISKEQUALS",
	token.BANG: "BANG", token.CASE: "CASE", token.COLON: "COLON", token.COMMA: "COMMA", token.CONTAINS: "CONTAINS",
	token.DEFAULT: "DEFAULT", token.DOTDOT: "DOTDOT", token.ELSE: "ELSE", token.EOF: "EOF", token.EQ: "EQ",
	token.FALSE: "FALSE", token.FLOAT: "FLOAT", token.FOR: "FOR", token.FOREACH: "FOREACH", token.FUNCTION: "FUNCTION",
	token.GT: "GT", token.GTEQUALS: "GTEQUALS", token.IDENT: "IDENT", token.IF: "IF", token.ILLEGAL: "ILLEGAL",
	token.IN: "IN", token.INT: "INT", token.LBRACE: "LBRACE", token.LOCAL: "LOCAL", token.LPAREN: "LPAREN",
	token.LSQUARE: "LSQUARE", token.LT: "LT", token.LTEQUALS: "LTEQUALS", token.MINUS: "MINUS",
	token.MINUSEQUALS: "MINUSEQUALS", token.MINUSMINUS: "MINUSMINUS", token.MISSING: "MISSING", token.MOD: "MOD",
	token.NOTEQ: "NOTEQ", token.OR: "OR", token.PERIOD: "PERIOD", token.PLUS: "PLUS", token.PLUSPLUS: "PLUSPLUS",
	token.PLUSEQUALS: "PLUSEQUALS", token.POW: "POW", token.QUESTION: "QUESTION", token.RBRACE: "RBRACE",
	token.REGEXP: "REGEXP", token.RETURN: "RETURN", token.RPAREN: "RPAREN", token.RSQUARE: "RSQUARE",
	token.SEMICOLON: "SEMICOLON", token.SLASH: "SLASH", token.SLASHEQUALS: "SLASHEQUALS", token.SQRT: "SQRT",
	token.STRING: "STRING", token.SWITCH: "SWITCH", token.TRUE: "TRUE", token.WHILE: "WHILE", "": "NONE",
}

// implTokens lexes the way the parser pulls tokens: up to the EOF at the real end of input.
func implTokens(script string) string {
	l := lexer.New(script)
	nRunes := len([]rune(script))
	var parts []string
	// The lexer returns EOF for ever once the input is exhausted; stop at the first EOF.
	for i := 0; i < nRunes+2; i++ {
		t := l.NextToken()
		name, ok := tokNames[t.Type]
		if !ok {
			name = "UNKNOWN(" + string(t.Type) + ")"
		}
		lit := ""
		if t.Type != token.ILLEGAL {
			lit = hexs(t.Literal)
		}
		parts = append(parts, name+":"+lit)
		if t.Type == token.EOF {
			break
		}
	}
	return strings.Join(parts, ",")
}

func showExprs(es []ast.Expression) string {
	var ps []string
	for _, e := range es {
		ps = append(ps, showExpr(e))
	}
	return strings.Join(ps, ",")
}

func showBlock(b *ast.BlockStatement) string {
	if b == nil {
		return "{NILBLOCK}"
	}
	return showStmts(b.Statements)
}

func showStmts(ss []ast.Statement) string {
	var ps []string
	for _, s := range ss {
		switch n := s.(type) {
		case *ast.ExpressionStatement:
			ps = append(ps, "e("+showExpr(n.Expression)+")")
		case *ast.ReturnStatement:
			ps = append(ps, "ret("+showExpr(n.ReturnValue)+")")
		default:
			ps = append(ps, fmt.Sprintf("?stmt(%T)", s))
		}
	}
	return "{" + strings.Join(ps, ",") + "}"
}

func showExpr(e ast.Expression) string {
	switch n := e.(type) {
	case nil:
		return "NILEXPR"
	case *ast.Identifier:
		return "id(" + hexs(n.Value) + ")"
	case *ast.IntegerLiteral:
		return fmt.Sprintf("int(%s,%d)", hexs(n.Token.Literal), n.Value)
	case *ast.FloatLiteral:
		return fmt.Sprintf("float(%s,%d)", hexs(n.Token.Literal), floatBits(n.Value))
	case *ast.BooleanLiteral:
		if n.Value {
			return "true"
		}
		return "false"
	case *ast.StringLiteral:
		return "str(" + hexs(n.Value) + ")"
	case *ast.RegexpLiteral:
		return "re(" + hexs(n.Value) + "," + hexs(n.Flags) + ")"
	case *ast.ArrayLiteral:
		return "arr(" + showExprs(n.Elements) + ")"
	case *ast.HashLiteral:
		var rs []string
		for k, v := range n.Pairs {
			rs = append(rs, showExpr(k)+":"+showExpr(v))
		}
		sort.Strings(rs)
		return "hash(" + strings.Join(rs, ",") + ")"
	case *ast.PrefixExpression:
		return "pre(" + hexs(n.Operator) + "," + showExpr(n.Right) + ")"
	case *ast.InfixExpression:
		return "in(" + hexs(n.Operator) + "," + showExpr(n.Left) + "," + showExpr(n.Right) + ")"
	case *ast.PostfixExpression:
		return "post(" + hexs(n.Token.Literal) + "," + hexs(n.Operator) + ")"
	case *ast.TernaryExpression:
		return "tern(" + showExpr(n.Condition) + "," + showExpr(n.IfTrue) + "," + showExpr(n.IfFalse) + ")"
	case *ast.IndexExpression:
		return "idx(" + showExpr(n.Left) + "," + showExpr(n.Index) + ")"
	case *ast.CallExpression:
		return "call(" + showExpr(n.Function) + ";" + showExprs(n.Arguments) + ")"
	case *ast.AssignStatement:
		name := ""
		if n.Name != nil {
			name = n.Name.Value
		}
		return "asg(" + hexs(name) + "," + showExpr(n.Value) + ")"
	case *ast.IfExpression:
		alt := "-"
		if n.Alternative != nil {
			alt = showBlock(n.Alternative)
		}
		return "if(" + showExpr(n.Condition) + "," + showBlock(n.Consequence) + "," + alt + ")"
	case *ast.WhileStatement:
		return "while(" + showExpr(n.Condition) + "," + showBlock(n.Body) + ")"
	case *ast.ForeachStatement:
		return "each(" + hexs(n.Index) + "," + hexs(n.Ident) + "," + showExpr(n.Value) + "," + showBlock(n.Body) + ")"
	case *ast.SwitchExpression:
		var cs []string
		for _, c := range n.Choices {
			if c.Default {
				cs = append(cs, "default"+showBlock(c.Block))
			} else {
				cs = append(cs, "case("+showExprs(c.Expr)+")"+showBlock(c.Block))
			}
		}
		return "sw(" + showExpr(n.Value) + ";" + strings.Join(cs, ",") + ")"
	case *ast.FunctionDefinition:
		var ps []string
		for _, p := range n.Parameters {
			ps = append(ps, hexs(p.Value))
		}
		return "fn(" + hexs(n.Token.Literal) + ";" + strings.Join(ps, ",") + ";" + showBlock(n.Body) + ")"
	case *ast.LocalVariable:
		return "local(" + hexs(n.Token.Literal) + ")"
	}
	return fmt.Sprintf("?expr(%T)", e)
}

func implAst(script string) (string, bool) {
	p := parser.New(lexer.New(script))
	prog, err := p.Parse()
	if err != nil || prog == nil {
		return "", false
	}
	return showStmts(prog.Statements), true
}

func showFuncs(fs map[string]environment.UserFunction) string {
	var rs []string
	for name, f := range fs {
		var as []string
		for _, a := range f.Arguments {
			as = append(as, hexs(a))
		}
		rs = append(rs, hexs(name)+":"+strings.Join(as, ".")+":"+hex.EncodeToString(f.Bytecode))
	}
	sort.Strings(rs)
	return strings.Join(rs, ";")
}

func showGlobals(g map[string]object.Object) string {
	var rs []string
	for k, v := range g {
		rs = append(rs, hexs(k)+":"+showValue(v))
	}
	sort.Strings(rs)
	return strings.Join(rs, ",")
}

func hostFunc(f HostFn) func(args []object.Object) object.Object {
	return func(args []object.Object) object.Object {
		var as []string
		for _, a := range args {
			as = append(as, a.Inspect())
		}
		fmt.Printf("<%s(%s)>", f.Name, strings.Join(as, ","))
		switch f.Kind {
		case "const":
			return f.V.Object()
		case "arg":
			if f.I < len(args) {
				return args[f.I]
			}
			return &object.Null{}
		case "sum":
			var s int64
			for _, a := range args {
				if i, ok := a.(*object.Integer); ok {
					s += i.Value
				}
			}
			return &object.Integer{Value: s}
		case "void":
			return &object.Void{}
		case "list":
			// keeps the slice it was handed (a host is entitled to: the arguments belong to the call)
			return &object.Array{Elements: args}
		case "nil":
			// Go's other way of handing back nothing: a nil POINTER of an object type inside the interface
			switch f.I {
			case 1:
				return (*object.String)(nil)
			case 2:
				return (*object.Integer)(nil)
			case 3:
				return (*object.Array)(nil)
			}
			return nil
		case "panic":
			// hosts panic with all sorts of values: a string, an error, an integer, a struct, nil-valued things
			switch f.I {
			case 1:
				panic(fmt.Errorf("host function panic (error value)"))
			case 2:
				panic(42)
			case 3:
				panic(struct{ Code int }{7})
			case 4:
				panic([]string{"slice"})
			case 5:
				panic(3.5)
			case 6:
				var nothing interface{}
				panic(nothing) // panic(nil): with this module's go directive recover() then returns nil
			}
			panic("host function panic")
		}
		return &object.Void{}
	}
}

func has(xs []string, x string) bool {
	for _, y := range xs {
		if x == y {
			return true
		}
	}
	return false
}

// prepare builds an evaluator for the case; returns error text ("" if ok) and whether it panicked.
func prepareEval(c *Case, opt bool, ctx context.Context) (e *evalfilter.Eval, errText string, panicked bool) {
	defer func() {
		if r := recover(); r != nil {
			panicked = true
			errText = fmt.Sprint(r)
		}
	}()
	e = evalfilter.New(c.Script)
	for _, v := range c.Vars {
		e.SetVariable(v.Name, v.V.Object())
	}
	for _, f := range c.Fns {
		e.AddFunction(f.Name, hostFunc(f))
	}
	if ctx != nil {
		e.SetContext(ctx)
	}
	var err error
	if opt {
		err = e.Prepare()
	} else {
		err = e.Prepare([]byte{evalfilter.NoOptimize})
	}
	if err != nil {
		return e, err.Error(), false
	}
	return e, "", false
}

// RunImpl executes the case on the real code and returns the protocol line.
// tzOf: a case may ask for a time zone (Show entry "tz=<zone>"); the library reads $TZ at every call
func tzOf(c *Case) string {
	for _, s := range c.Show {
		if strings.HasPrefix(s, "tz=") {
			return strings.TrimPrefix(s, "tz=")
		}
	}
	return ""
}

func RunImpl(c *Case) string {
	if z := tzOf(c); z != "" {
		os.Setenv("TZ", z)
		defer os.Setenv("TZ", "UTC")
	}
	var sb strings.Builder
	sb.WriteString(c.ID)
	ctx := newPollCtx()
	ctx.far = has(c.Show, "fardeadline")
	captureStart()
	e, errText, panicked := prepareEval(c, c.Opt, ctx)
	prepOut := captureStop()
	_ = prepOut
	if panicked {
		sb.WriteString(" prep=panic")
		return sb.String()
	}
	if errText != "" {
		sb.WriteString(" prep=err")
		if has(c.Show, "errtext") {
			sb.WriteString(" perr=" + hex.EncodeToString([]byte(errText)))
		}
		if has(c.Show, "tokens") {
			sb.WriteString(" tokens=" + implTokens(c.Script))
		}
		return sb.String()
	}
	sb.WriteString(" prep=ok")
	if has(c.Show, "tokens") {
		sb.WriteString(" tokens=" + implTokens(c.Script))
	}
	if has(c.Show, "ast") {
		a, ok := implAst(c.Script)
		if !ok {
			a = "PARSEFAIL"
		}
		sb.WriteString(" ast=" + a)
	}
	if has(c.Show, "code") {
		var cs []string
		for _, k := range e.VerifConstants() {
			cs = append(cs, showValue(k))
		}
		sb.WriteString(" consts=" + strings.Join(cs, ","))
		captureStart()
		e2, t2, p2 := prepareEval(c, false, nil)
		captureStop()
		if p2 || t2 != "" {
			sb.WriteString(" raw=PREPFAIL rawfns=")
		} else {
			sb.WriteString(" raw=" + hex.EncodeToString(e2.VerifMachine().VerifBytecode()))
			sb.WriteString(" rawfns=" + showFuncs(e2.VerifMachine().VerifFunctions()))
		}
		sb.WriteString(" main=" + hex.EncodeToString(e.VerifMachine().VerifBytecode()))
		sb.WriteString(" fns=" + showFuncs(e.VerifMachine().VerifFunctions()))
	}
	var lastPtr reflect.Value
	series := 0
runSeries:
	for i0, r := range c.Runs {
		i := i0 + series*len(c.Runs)
		for _, f := range r.Fns { // the host (re)registers functions between runs
			e.AddFunction(f.Name, hostFunc(f))
		}
		obj, objErr := buildObj(r.Obj)
		// a host typically keeps one object and updates it in place between runs: when this run's
		// object is a pointer to the same struct type as the previous one, reuse that pointer
		if objErr == "" && obj != nil {
			if rv := reflect.ValueOf(obj); rv.Kind() == reflect.Ptr && !rv.IsNil() {
				if lastPtr.IsValid() && lastPtr.Type() == rv.Type() {
					lastPtr.Elem().Set(rv.Elem())
					obj = lastPtr.Interface()
				} else {
					lastPtr = rv
				}
			}
		}
		ctx.reset(r.Polls)
		var out object.Object
		var err error
		escaped := ""
		captureStart()
		func() {
			defer func() {
				if rec := recover(); rec != nil {
					escaped = fmt.Sprint(rec)
				}
			}()
			if objErr != "" {
				panic("harness: cannot build object: " + objErr)
			}
			out, err = e.Execute(obj)
		}()
		stdout := stripNoise(captureStop())
		switch {
		case escaped != "":
			fmt.Fprintf(&sb, " r%d=ESCAPED:%s", i, hexs(escaped))
		case err != nil:
			fmt.Fprintf(&sb, " r%d=E:%s", i, classify(err))
		default:
			fmt.Fprintf(&sb, " r%d=V:%s", i, showValue(out))
		}
		fmt.Fprintf(&sb, " o%d=%s", i, hexs(stdout))
		if has(c.Show, "stderr") {
			fmt.Fprintf(&sb, " e%d=%s", i, hexs(capturedStderr))
		}
		capturedStderr = ""
		fmt.Fprintf(&sb, " g%d=%s", i, showGlobals(e.VerifEnvironment().VerifGlobals()))
		fmt.Fprintf(&sb, " s%d=%d", i, e.VerifEnvironment().ScopeDepth())
		fmt.Fprintf(&sb, " p%d=%d", i, ctx.calls)
		if has(c.Show, "spec") {
			t := "-"
			if escaped == "" && err == nil && out != nil && !(reflect.ValueOf(out).Kind() == reflect.Ptr && reflect.ValueOf(out).IsNil()) {
				if out.True() {
					t = "1"
				} else {
					t = "0"
				}
			}
			fmt.Fprintf(&sb, " t%d=%s", i, t)
			// GetVariable, as a host would call it after the run: the variables given with SetVariable and
			// a few names a script may or may not have assigned
			var as []string
			for _, nm := range apiProbeNames(c) {
				as = append(as, hexs(nm)+":"+showValue(e.GetVariable(nm)))
			}
			fmt.Fprintf(&sb, " a%d=%s", i, strings.Join(as, ","))
		}
		if has(c.Show, "stack") {
			fmt.Fprintf(&sb, " k%d=%d", i, e.VerifMachine().VerifStackSize())
		}
	}
	// the same evaluator prepared AGAIN with another script (the exported Script field assigned, then Prepare):
	// its variables stay, everything that belonged to the old script is gone; then the runs once more
	if c.Again != "" && series == 0 {
		e.Script = c.Again
		captureStart()
		var perr error
		var ppanic interface{}
		func() {
			defer func() { ppanic = recover() }()
			if c.Opt {
				perr = e.Prepare()
			} else {
				perr = e.Prepare([]byte{evalfilter.NoOptimize})
			}
		}()
		captureStop()
		switch {
		case ppanic != nil:
			sb.WriteString(" prep2=PANIC")
		case perr != nil:
			sb.WriteString(" prep2=err")
		default:
			sb.WriteString(" prep2=ok")
			series = 1
			goto runSeries
		}
	}
	if has(c.Show, "fresh") {
		implFresh(c, &sb)
	}
	if has(c.Show, "runbool") {
		implRunBool(c, &sb)
	}
	if has(c.Show, "dump") {
		captureStart()
		var derr error
		escaped := ""
		func() {
			defer func() {
				if rec := recover(); rec != nil {
					escaped = fmt.Sprint(rec)
				}
			}()
			derr = e.Dump()
		}()
		d := captureStop()
		if escaped != "" {
			sb.WriteString(" dump=ESCAPED:" + hexs(escaped))
		} else if derr != nil {
			sb.WriteString(" dump=E")
		} else {
			sb.WriteString(" dump=" + hexs(d))
		}
	}
	return sb.String()
}

// one run on an evaluator, rendered like the r/o/g keys
func oneRun(e *evalfilter.Eval, ctx *pollCtx, r Run) (res, out, globals string) {
	obj, objErr := buildObj(r.Obj)
	ctx.reset(r.Polls)
	var o object.Object
	var err error
	escaped := ""
	captureStart()
	func() {
		defer func() {
			if rec := recover(); rec != nil {
				escaped = fmt.Sprint(rec)
			}
		}()
		if objErr != "" {
			panic("harness: cannot build object")
		}
		o, err = e.Execute(obj)
	}()
	stdout := stripNoise(captureStop())
	switch {
	case escaped != "":
		res = "ESCAPED:" + hexs(escaped)
	case err != nil:
		res = "E:" + classify(err)
	default:
		res = "V:" + showValue(o)
	}
	return res, hexs(stdout), showGlobals(e.VerifEnvironment().VerifGlobals())
}

// implFresh: the k-th run of the history on a freshly prepared evaluator that holds the variables
// the used evaluator held before its k-th run (keys f<k>, h<k>, j<k> mirror r<k>, o<k>, g<k>).
func implFresh(c *Case, sb *strings.Builder) {
	ctx := newPollCtx()
	ctx.far = has(c.Show, "fardeadline")
	captureStart()
	used, errText, panicked := prepareEval(c, c.Opt, ctx)
	captureStop()
	if panicked || errText != "" {
		return
	}
	for i, r := range c.Runs {
		before := used.VerifEnvironment().VerifGlobals()
		fctx := newPollCtx()
		fctx.far = has(c.Show, "fardeadline")
		captureStart()
		fresh, et, pk := prepareEval(c, c.Opt, fctx)
		captureStop()
		if pk || et != "" {
			return
		}
		for k, v := range before {
			fresh.SetVariable(k, v)
		}
		for _, rr := range c.Runs[:i+1] {
			for _, f := range rr.Fns {
				fresh.AddFunction(f.Name, hostFunc(f))
			}
		}
		fr, fo, fg := oneRun(fresh, fctx, r)
		fmt.Fprintf(sb, " f%d=%s h%d=%s j%d=%s", i, fr, i, fo, i, fg)
		fmt.Fprintf(sb, " q%d=%d", i, fctx.calls)
		oneRun(used, ctx, r)
	}
}

// implRunBool: the same history through Run (keys b<k>): 1/0 or E
func implRunBool(c *Case, sb *strings.Builder) {
	ctx := newPollCtx()
	ctx.far = has(c.Show, "fardeadline")
	captureStart()
	e, errText, panicked := prepareEval(c, c.Opt, ctx)
	captureStop()
	if panicked || errText != "" {
		return
	}
	for i, r := range c.Runs {
		for _, f := range r.Fns {
			e.AddFunction(f.Name, hostFunc(f))
		}
		obj, objErr := buildObj(r.Obj)
		ctx.reset(r.Polls)
		res := ""
		captureStart()
		func() {
			defer func() {
				if rec := recover(); rec != nil {
					res = "ESCAPED:" + hexs(fmt.Sprint(rec))
				}
			}()
			if objErr != "" {
				panic("harness: cannot build object")
			}
			b, err := e.Run(obj)
			if err != nil {
				res = "E"
			} else if b {
				res = "1"
			} else {
				res = "0"
			}
		}()
		captureStop()
		fmt.Fprintf(sb, " b%d=%s", i, res)
	}
}

func buildObj(h HV) (obj interface{}, errText string) {
	defer func() {
		if r := recover(); r != nil {
			errText = fmt.Sprint(r)
		}
	}()
	return h.Interface(), ""
}

// apiProbeNames: the names GetVariable is asked for after every run of an API case
func apiProbeNames(c *Case) []string {
	names := []string{"v", "w", "x", "unset", "neverAssigned", "OPTIMIZE", "$v", "$neverAssigned"}
	seen := map[string]bool{}
	for _, n := range names {
		seen[n] = true
	}
	for _, v := range c.Vars {
		if !seen[v.Name] {
			seen[v.Name] = true
			names = append(names, v.Name)
		}
	}
	return names
}
