package main

import (
	"fmt"
	"strconv"
	"strings"
	"time"
)

var builtinNames = []string{"between", "float", "getenv", "int", "join", "keys", "len", "lower", "match", "max", "min",
	"now", "panic", "print", "printf", "replace", "reverse", "sort", "split", "sprintf", "string",
	"time", "trim", "type", "upper", "hour", "minute", "seconds", "day", "month", "year", "weekday"}

// argument pool: script text of values of every type
var argPool = []string{
	"0", "1", "-1", "9", "10", "100", "-20", "65535", "70000", "9223372036854775807",
	"0.5", "1.5", "-2.5", "10.0", "9.75",
	"\"\"", "\"a\"", "\"B\"", "\"hello world\"", "\" pad \"", "\"10\"", "\"9\"", "\"3.5\"", "\"x,y,,z\"", "\"Héllo\"", "\"a\\nb\"",
	"true", "false", "Missing",
	"[]", "[3, 1, 2]", "[\"b\", \"A\", \"c\"]", "[10, 9, \"10\", 1.5]", "[\"a\", \"a\", \"B\"]",
	"{}", "{\"b\": 1, \"a\": 2}", "{1: \"x\", \"1\": \"y\"}",
	"/a/", "/[0-9]+/", "/^h/i",
	"Count", "Score", "Name", "Flag", "Tags", "Nums", "1600000000", "86399", "-1", "951782400",
}

// timestamps: every day boundary region of a few centuries is covered in the thorough tier
func timeArgs(r *Rng, n int) []string {
	var out []string
	for i := 0; i < n; i++ {
		// 1600-01-01 .. 2400-01-01 in seconds
		lo, hi := int64(-11676096000), int64(13569465600)
		v := lo + int64(r.Next()%uint64(hi-lo))
		out = append(out, fmt.Sprint(v))
	}
	return out
}

func genBuiltinCalls(stream string, seed uint64, perFn int) []GenCase {
	r := NewRng(seed)
	var out []GenCase
	id := 0
	add := func(script string, tags ...string) {
		c := Case{ID: fmt.Sprintf("%s-%d", stream, id), Script: script, Opt: r.Bool(), Fns: []HostFn{recFn()}, Tags: tags,
			Runs: []Run{{Obj: stdObject(r), Polls: defaultPolls}}}
		id++
		out = append(out, GenCase{Case: c, Stream: stream, NonTrivial: true})
	}
	for _, fn := range builtinNames {
		if fn == "now" || fn == "time" {
			add("return type("+fn+"());", "builtin:"+fn)
			add("return "+fn+"() > 1600000000;", "builtin:"+fn)
			continue
		}
		// arity 0
		add("return "+fn+"();", "builtin:"+fn, "arity0")
		// arity 1: whole pool
		for _, a := range argPool {
			add("return "+fn+"("+a+");", "builtin:"+fn, "arity1")
		}
		// arity 2..4: sampled
		for k := 0; k < perFn; k++ {
			n := 2 + r.Intn(3)
			var as []string
			for i := 0; i < n; i++ {
				as = append(as, Pick(r, argPool))
			}
			add("return "+fn+"("+strings.Join(as, ", ")+");", "builtin:"+fn, fmt.Sprintf("arity%d", n))
		}
	}
	// min / max / between agree with the language's own <= : on small numbers and where float64 cannot tell
	// two integers apart (above 2^53), int against int, int against float (on a numeric tie between an
	// integer and a float both are 'the smaller'; the expectation takes the first argument, as the built-ins do)
	bigs := []string{"9007199254740991", "9007199254740992", "9007199254740993", "9223372036854775806", "9223372036854775807",
		"-9007199254740992", "-9007199254740993", "-9223372036854775807", "4611686018427387904", "4611686018427387905",
		"9007199254740992.0", "-9007199254740992.0", "0", "3", "2.5"}
	for _, a := range bigs {
		for _, b := range bigs {
			c := Case{ID: fmt.Sprintf("%s-%d", stream, id), Opt: r.Bool(), Fns: []HostFn{recFn()}, Tags: []string{"minmax-agree"},
				Script: fmt.Sprintf("a = %s; b = %s; return [min(a, b), (a <= b) ? a : b, max(a, b), (b <= a) ? a : b, between(a, b, b), (b <= a) && (a <= b), between(a, a, b), (a <= a) && (a <= b)];", a, b),
				Runs:   []Run{{Obj: stdObject(r), Polls: defaultPolls}}}
			id++
			out = append(out, GenCase{Case: c, Stream: stream, NonTrivial: true, Role: "agree:pairs"})
		}
	}
	// join(split(s, d), d) is s: every string against every separator, including strings that end in
	// (characters of) the separator, empty pieces, multi-character and non-ASCII separators
	jstrs := []string{"", "a", "a,b,", ",", ",,", ",a", "a,b,c", "x::y::", "x::y:", "a, b, c ", "a, b, c, ", "lll", "abab", "ababa", "π-é-", "-", "ab", "é", "ééé"}
	jseps := []string{",", "::", ":", ", ", "l", "ab", "ba", "-", "", "é", " "}
	for _, js := range jstrs {
		for _, jd := range jseps {
			c := Case{ID: fmt.Sprintf("%s-%d", stream, id), Opt: r.Bool(), Fns: []HostFn{recFn()}, Tags: []string{"split-join-product"},
				Script: fmt.Sprintf("s = %q; d = %q; return join(split(s, d), d) == s;", js, jd),
				Runs:   []Run{{Obj: stdObject(r), Polls: defaultPolls}}}
			id++
			out = append(out, GenCase{Case: c, Stream: stream, NonTrivial: true, Role: "expecttrue"})
		}
	}
	// the replacement of replace() is a template ($0 the match, $1.. and $name the groups, $$ a dollar; an
	// unknown or unmatched reference is empty) - for plain and for regexp patterns alike; stated directly,
	// because the executable model declines to answer for replacements containing `$`
	for _, p := range [][4]string{{"a-b-c", "\"-\"", "<$0>", "a<->b<->c"}, {"abc", "\"b\"", "$1", "ac"}, {"abc", "\"b\"", "$$", "a$c"}, {"abc", "\"(b)\"", "[$1$1]", "a[bb]c"},
		{"abc", "\"b\"", "${0}x", "abxc"}, {"abc", "\"b\"", "$0x", "ac"}, {"abc", "\"b\"", "$", "a$c"}, {"abc", "/(?P<m>b)/", "<$m>", "a<b>c"}, {"abc", "/b/", "<$0>", "a<b>c"},
		{"a.b", "\"\\\\.\"", "[$0]", "a[.]b"}, {"aXbX", "\"X\"", "$0$0", "aXXbXX"}, {"abc", "\"c\"", "${1}", "ab"}, {"abc", "\"\"", "$0-", "-a-b-c-"}} {
		c := Case{ID: fmt.Sprintf("%s-%d", stream, id), Opt: r.Bool(), Fns: []HostFn{recFn()}, Tags: []string{"replace-template-contract"},
			Script: fmt.Sprintf("return replace(%q, %s, %q) == %q;", p[0], p[1], p[2], p[3]),
			Runs:   []Run{{Obj: stdObject(r), Polls: defaultPolls}}}
		id++
		out = append(out, GenCase{Case: c, Stream: stream, NonTrivial: true, Role: "expecttrue"})
	}
	// the time functions decompose a time as the host's time library does IN THE CONFIGURED ZONE ($TZ): the
	// expectation is computed with package time itself; the model has no zone database, so these cases are
	// judged by that expectation alone
	for _, zone := range []string{"Asia/Tokyo", "Pacific/Auckland", "America/New_York", "Europe/London", "Asia/Kolkata", "UTC", ""} {
		loc := time.UTC
		if zone != "" {
			if l, err := time.LoadLocation(zone); err == nil {
				loc = l
			} else {
				continue
			}
		}
		for _, ts := range []int64{0, 86399, 951782400, 1700000000, 1711846800, 1730599200, -1, 1735689599, 4102444800} {
			tm := time.Unix(ts, 0).In(loc)
			hr, mi, se := tm.Clock()
			y, mo, d := tm.Date()
			want := fmt.Sprintf("%d-%d-%d %d:%d:%d %s", y, int(mo), d, hr, mi, se, tm.Weekday().String())
			c := Case{ID: fmt.Sprintf("%s-%d", stream, id), Opt: r.Bool(), Fns: []HostFn{recFn()}, Tags: []string{"time-in-zone", "zone:" + zone},
				Script: fmt.Sprintf("t = %d; return sprintf(\"%%d-%%d-%%d %%d:%%d:%%d %%s\", year(t), month(t), day(t), hour(t), minute(t), seconds(t), weekday(t));", ts),
				Runs:   []Run{{Obj: stdObject(r), Polls: defaultPolls}}}
			if zone != "" {
				c.Show = append(c.Show, "tz="+zone)
			}
			id++
			gc := GenCase{Case: c, Stream: stream, NonTrivial: true, Role: "expect:" + hexs(want)}
			if zone != "" && zone != "UTC" {
				gc.ModelFree = true
			}
			out = append(out, gc)
		}
	}
	// well-typed uses
	for k := 0; k < perFn*4; k++ {
		switch r.Intn(12) {
		case 0:
			add(fmt.Sprintf("return [min(%s, %s), max(%s, %s)];", numArg(r), numArg(r), numArg(r), numArg(r)), "minmax-typed")
		case 1:
			add(fmt.Sprintf("return between(%s, %s, %s);", numArg(r), numArg(r), numArg(r)), "between-typed")
		case 2:
			add(fmt.Sprintf("return sort(%s%s);", arrArg(r), Pick(r, []string{"", ", true", ", false"})), "sort-typed")
		case 3:
			add(fmt.Sprintf("return reverse(%s%s);", arrArg(r), Pick(r, []string{"", ", true", ", false"})), "reverse-typed")
		case 4:
			s, d := strArg(r), Pick(r, []string{"\",\"", "\" \"", "\"\"", "\"ab\"", "\"é\"", "\"l\""})
			add(fmt.Sprintf("return [split(%s, %s), join(split(%s, %s), %s) == %s];", s, d, s, d, d, s), "split-join")
		case 5:
			add(fmt.Sprintf("return [len(%s), lower(%s), upper(%s), trim(%s)];", strArg(r), strArg(r), strArg(r), strArg(r)), "string-fns")
		case 6:
			add(fmt.Sprintf("return [int(%s), float(%s), string(%s), type(%s)];", Pick(r, argPool), Pick(r, argPool), Pick(r, argPool), Pick(r, argPool)), "conversions")
		case 7:
			ts := timeArgs(r, 1)[0]
			add(fmt.Sprintf("t = %s; return [year(t), month(t), day(t), hour(t), minute(t), seconds(t), weekday(t)];", ts), "time-fields")
		case 8:
			add(fmt.Sprintf("return [match(%s, %s), replace(%s, %s, %s)];", strArg(r), reArg(r), strArg(r), reArg(r), Pick(r, []string{"\"-\"", "\"\"", "\"XY\""})), "regexp-fns")
		case 9:
			add(fmt.Sprintf("return sprintf(\"%%s=%%d %%v %%t %%%%\", %s, %s, %s, %s);", strArg(r), intArg(r), Pick(r, []string{"1", "\"s\"", "true"}), Pick(r, []string{"true", "false"})), "sprintf")
		case 10:
			add(fmt.Sprintf("return [keys(%s), len(%s)];", Pick(r, []string{"{}", "{\"b\": 1, \"a\": 2}", "{1: \"x\", \"1\": \"y\", 1.5: 0}", "{\"z\": [1], \"y\": {}}"}), arrArg(r)), "keys-len")
		default:
			add(fmt.Sprintf("print(%s, %s); printf(\"%%s|%%d\\n\", %s, %s); return getenv(%s);", Pick(r, argPool), Pick(r, argPool), strArg(r), intArg(r), Pick(r, []string{"\"VERIF_FIXED\"", "\"VERIF_UNSET_VARIABLE\"", "1"})), "print-getenv")
		}
	}
	// patterns that do not compile: a complaint on standard output (nothing anywhere else), false / the subject unchanged
	for _, pat := range []string{"\"(\"", "/(/", "\"[\"", "\"a{2,1}\"", "\"*\"", "Name + \"(\"", "\"\\\\\""} {
		add(fmt.Sprintf("return [replace(\"abc\", %s, \"x\"), match(\"abc\", %s)];", pat, pat), "invalid-pattern")
		add(fmt.Sprintf("if (\"abc\" ~= %s) { return 1; } return replace(Name, %s, \"\");", pat, pat), "invalid-pattern")
	}
	// sprintf formats its arguments as Go's fmt does for the Go value each script value stands for (integer: int64,
	// float: float64, string, boolean): every verb x every kind of argument, the expectation computed by fmt itself
	{
		type sv struct {
			lit string
			gov interface{}
		}
		vals := []sv{{"2.0", float64(2)}, {"2.5", 2.5}, {"10.0", float64(10)}, {"0.0", float64(0)}, {"100000.0", float64(100000)}, {"7", int64(7)}, {"-3", int64(-3)}, {"70000", int64(70000)},
			{"\"s\"", "s"}, {"\"\"", ""}, {"true", true}, {"false", false}}
		for _, verb := range []string{"%d", "%s", "%v", "%t", "%f", "%.2f", "%e", "%g", "%x", "%q", "%5d|", "%-5s|", "%05d", "%5.1f|", "%c", "%b", "%o", "%+d", "%T"} {
			for _, v := range vals {
				want := fmt.Sprintf("<"+verb+">", v.gov)
				c := Case{ID: fmt.Sprintf("%s-%d", stream, id), Opt: r.Bool(), Fns: []HostFn{recFn()}, Tags: []string{"sprintf-verbs", "verb:" + verb},
					Script: fmt.Sprintf("return sprintf(\"<%s>\", %s);", verb, v.lit), Runs: []Run{{Obj: stdObject(r), Polls: defaultPolls}}}
				id++
				out = append(out, GenCase{Case: c, Stream: stream, NonTrivial: true, Role: "expect:" + hexs(want), ModelFree: true})
			}
		}
		for _, p := range [][2]string{{"sprintf(\"%d %d\", 1)", fmt.Sprintf("%d %d", int64(1))}, {"sprintf(\"%d\", 1, 2)", fmt.Sprintf("%d", int64(1), int64(2))}, {"sprintf(\"100%%\")", "100%"},
			{"sprintf(\"%s=%d\", \"a\", 2.0)", fmt.Sprintf("%s=%d", "a", float64(2))}, {"sprintf(\"%%d\", 1)", fmt.Sprintf("%%d", int64(1))}, {"sprintf(\"\")", ""}} {
			c := Case{ID: fmt.Sprintf("%s-%d", stream, id), Opt: r.Bool(), Fns: []HostFn{recFn()}, Tags: []string{"sprintf-verbs"},
				Script: "return " + p[0] + ";", Runs: []Run{{Obj: stdObject(r), Polls: defaultPolls}}}
			id++
			out = append(out, GenCase{Case: c, Stream: stream, NonTrivial: true, Role: "expect:" + hexs(p[1]), ModelFree: true})
		}
	}
	// int() reads a DECIMAL integer (strconv.ParseInt base 10 of the printed argument) and float() a decimal
	// float; anything else is null: no octal, no hex, no underscores, no blanks, no sign tricks
	for _, in := range []string{"010", "0644", "09", "0x10", "0X1F", "0b11", "0o17", "1_000", " 12", "12 ", "+5", "-7", "--7", "1e3", "12.5", "", "abc", "9223372036854775807", "9223372036854775808", "-9223372036854775808", "00", "-0", "0.0", "1.", ".5", "inf", "NaN", "1,5", "0x1p3", "1__0"} {
		wantI := "null:null"
		if v, err := strconv.ParseInt(in, 10, 64); err == nil {
			wantI = "integer:" + fmt.Sprint(v)
		}
		c := Case{ID: fmt.Sprintf("%s-%d", stream, id), Opt: r.Bool(), Fns: []HostFn{recFn()}, Tags: []string{"int-of-string"},
			Script: fmt.Sprintf("x = int(%q); return type(x) + \":\" + string(x);", in), Runs: []Run{{Obj: stdObject(r), Polls: defaultPolls}}}
		id++
		out = append(out, GenCase{Case: c, Stream: stream, NonTrivial: true, Role: "expect:" + hexs(wantI)})
		wantF := "null"
		if _, err := strconv.ParseFloat(in, 64); err == nil {
			wantF = "float"
		}
		c2 := Case{ID: fmt.Sprintf("%s-%d", stream, id), Opt: r.Bool(), Fns: []HostFn{recFn()}, Tags: []string{"float-of-string"},
			Script: fmt.Sprintf("return type(float(%q));", in), Runs: []Run{{Obj: stdObject(r), Polls: defaultPolls}}}
		id++
		out = append(out, GenCase{Case: c2, Stream: stream, NonTrivial: true, Role: "expect:" + hexs(wantF)})
	}
	// case-insensitive sorting folds to LOWER case: characters between `Z` and `a` ([ \ ] ^ _ `) sort after the letters' upper forms
	for _, arr := range []string{"[\"b\", \"_x\", \"A\"]", "[\"a\", \"Z\", \"^\", \"[\", \"_\", \"`\", \"z\", \"A\"]", "[\"B_\", \"b^\", \"Ba\", \"bA\", \"b_\"]", "[\"é\", \"É\", \"e\", \"Z\", \"_\"]"} {
		for _, fn := range []string{"sort", "reverse"} {
			for _, flag := range []string{"", ", true", ", false"} {
				add(fmt.Sprintf("x = %s; y = %s(x%s); return [y, x];", arr, fn, flag), "sort-case-fold")
			}
		}
	}
	// trim removes every kind of white space Unicode knows (as strings.TrimSpace does), at both ends, and nothing else
	for _, ws := range []string{"\f", "\v", "\u00a0", "\u0085", "\u2003", "\u2028", "\u3000", "\u1680", "\t \r\n", "\u200b", "\ufeff", "_"} {
		for _, body := range []string{"x", "a" + ws + "b", ""} {
			str := ws + body + ws + ws
			c := Case{ID: fmt.Sprintf("%s-%d", stream, id), Opt: r.Bool(), Fns: []HostFn{recFn()}, Tags: []string{"trim-unicode-space"},
				Script: "s = \"" + str + "\"; t = trim(s); return [t, len(t), len(s), t == trim(t), trim(Name + s)];",
				Runs:   []Run{{Obj: stdObject(r), Polls: defaultPolls}}}
			id++
			out = append(out, GenCase{Case: c, Stream: stream, NonTrivial: true})
			want := strings.TrimSpace(str)
			c2 := Case{ID: fmt.Sprintf("%s-%d", stream, id), Opt: r.Bool(), Fns: []HostFn{recFn()}, Tags: []string{"trim-unicode-space"},
				Script: "return trim(\"" + str + "\") == \"" + want + "\";", Runs: []Run{{Obj: stdObject(r), Polls: defaultPolls}}}
			id++
			out = append(out, GenCase{Case: c2, Stream: stream, NonTrivial: true, Role: "expecttrue"})
		}
	}
	// the replacement text of replace() is a template: $0, $1, ${1}, $name, $$ - whatever the pattern looks like
	for _, pat := range []string{"\"-\"", "\"b\"", "/-/", "/(b)/", "/(?P<x>b)/", "\"a|c\"", "\"\""} {
		for _, rep := range []string{"\"<$0>\"", "\"$1\"", "\"${1}x\"", "\"$$\"", "\"$x\"", "\"[$0$0]\"", "\"$\"", "\"$9\""} {
			add(fmt.Sprintf("return [replace(\"a-b-c\", %s, %s), replace(\"abc\", %s, %s)];", pat, rep, pat, rep), "replace-template")
		}
	}
	// match, ~=, !~ and regexp cases look at every line of the subject, each trimmed of the blanks around it:
	// multi-line subjects × anchored patterns, in the four places a match is made
	for _, subj := range []string{"\"disk error \\nrecovered\"", "\"first\\n  indented\"", "\"x\\r\\ny\"", "\"end\\n\"", "\"\\n\"", "\" \\n \"", "\"a \\n b\"", "\"  lead\"", "\"trail  \"",
		"\"\\tTab\\t\\nnext\"", "\"one\\n\\ntwo\"", "\"\"", "Name"} {
		for _, re := range []string{"/error$/", "/^indented/", "/^y/", "/x$/", "/^$/", "/^b$/", "/a$/", "/^lead$/", "/^trail$/", "/^Tab$/", "/^next/", "/^two$/", "/r\\nr/", "/^ /", "/ $/"} {
			add(fmt.Sprintf("s = %s; if (s ~= %s) { rec(1); } if (s !~ %s) { rec(2); } switch (s) { case %s { rec(3); } default { rec(4); } } return match(s, %s);", subj, re, re, re, re), "match-lines")
		}
	}
	return out
}

func numArg(r *Rng) string {
	return Pick(r, []string{"0", "1", "2", "9", "10", "11", "100", "-1", "-20", "-3", "1.5", "9.5", "10.0", "-2.5", "0.0", "Count", "Score", "70000", "65535"})
}
func intArg(r *Rng) string { return Pick(r, []string{"0", "1", "7", "42", "-5", "Count", "70000"}) }
func strArg(r *Rng) string {
	return Pick(r, []string{"\"\"", "\"a\"", "\"hello\"", "\"Hello World\"", "\"a,b,c\"", "\" x \"", "\"héllo\"", "\"aXbXc\"", "\"lll\"", "Name", "\"ab\"", "\"abab\""})
}
func arrArg(r *Rng) string {
	return Pick(r, []string{"[]", "[1]", "[3, 1, 2]", "[10, 9, 100]", "[\"b\", \"a\", \"C\"]", "[\"b\", \"B\", \"a\", \"A\"]", "[1.5, 1, \"1\"]", "Tags", "Nums", "[true, false]", "[[2], [1]]"})
}
func reArg(r *Rng) string {
	return Pick(r, []string{"/a/", "/l+/", "/^h/", "/o$/", "/[a-c]/", "/X/", "/H/i", "/x|l/", "/./", "\"l\"", "/(/", "/\\./"})
}
