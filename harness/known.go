package main

// Known findings: committed in /verif/known_findings.json, never written at run time.

import (
	"encoding/json"
	"os"
	"strings"
)

type KnownFinding struct {
	ID        string `json:"id"`
	Property  string `json:"property"`
	Status    string `json:"status"` // open | fixed
	Oracle    string `json:"oracle"`
	Predicate string `json:"predicate"`
	What      string `json:"what"`
	Repro     string `json:"reproducer"`
}

type KnownFile struct {
	Findings []KnownFinding `json:"findings"`
}

func loadKnown(path string) *KnownFile {
	kf := &KnownFile{}
	b, err := os.ReadFile(path)
	if err != nil {
		return kf
	}
	json.Unmarshal(b, kf)
	return kf
}

// match returns the id of the open finding whose signature covers this violation, or "".
func (k *KnownFile) match(prop string, v OracleViolation) string {
	for _, f := range k.Findings {
		if f.Status != "open" {
			continue
		}
		if f.Oracle != "" && f.Oracle != v.Oracle {
			continue
		}
		if pred, ok := predicates[f.Predicate]; ok && pred(v) {
			return f.ID
		}
	}
	return ""
}

// named structural predicates over a violation (implemented once, here)
var predicates = map[string]func(v OracleViolation) bool{
	"mentionsOPTIMIZE": func(v OracleViolation) bool { return strings.Contains(v.Script, "OPTIMIZE") },
	"sqrtOfSquareLiteral": func(v OracleViolation) bool { return strings.Contains(v.Script, "√") },
}
