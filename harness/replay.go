package main

import (
	"bufio"
	"encoding/json"
	"fmt"
	"os"
	"os/exec"
	"strings"
)

type ReplayFile struct {
	Property string `json:"property"`
	Tier     string `json:"tier"`
	Seed     uint64 `json:"seed"`
	ID       string `json:"id"`
}

// replayMain regenerates the named case from (property, tier, seed, id) and shows both sides.
func replayMain(args []string, driver string) {
	if len(args) < 1 {
		fmt.Fprintln(os.Stderr, "usage: harness replay <file>")
		os.Exit(2)
	}
	b, err := os.ReadFile(args[0])
	if err != nil {
		fmt.Fprintln(os.Stderr, err)
		os.Exit(2)
	}
	var rf ReplayFile
	json.Unmarshal(b, &rf)
	cases := Generate(rf.Property, rf.Tier, rf.Seed)
	for i := range cases {
		if cases[i].Case.ID == rf.ID {
			c := &cases[i].Case
			fmt.Println("script:", c.Script)
			fmt.Println("case:  ", c.Sexp())
			fmt.Println("IMPL:  ", RunImpl(c))
			cmd := exec.Command(driver)
			cmd.Stdin = strings.NewReader(c.Sexp() + "\n")
			out, _ := cmd.Output()
			sc := bufio.NewScanner(strings.NewReader(string(out)))
			for sc.Scan() {
				fmt.Println("MODEL: ", sc.Text())
			}
			return
		}
	}
	fmt.Println("case not found")
	os.Exit(1)
}
