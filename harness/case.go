package main

// Case representation shared by generators, the IMPL runner and the line
// protocol spoken to the Lean driver.

import (
	"encoding/hex"
	"fmt"
	"math"
	"reflect"
	"strings"
	"time"

	"github.com/skx/evalfilter/v2/object"
)

// ---------- script values (SetVariable, host function constants) ----------

type Val struct {
	Kind string // int float str bool null void regexp array hash
	I    int64
	F    float64
	S    string
	SHex string // the bytes of S in hex, when they are not valid UTF-8 (JSON could not carry them)
	B    bool
	Arr  []Val
	Keys []Val // hash
	Vals []Val
}

func (v Val) str() string {
	if v.SHex != "" {
		if b, err := hex.DecodeString(v.SHex); err == nil {
			return string(b)
		}
	}
	return v.S
}

func VInt(i int64) Val     { return Val{Kind: "int", I: i} }
func VFloat(f float64) Val { return Val{Kind: "float", F: f} }
func VStr(s string) Val    { return Val{Kind: "str", S: s} }
func VBool(b bool) Val     { return Val{Kind: "bool", B: b} }
func VNull() Val           { return Val{Kind: "null"} }
func VArr(xs ...Val) Val   { return Val{Kind: "array", Arr: xs} }

func hx(s string) string { return "#" + hex.EncodeToString([]byte(s)) }

func (v Val) Sexp() string {
	switch v.Kind {
	case "int":
		return fmt.Sprintf("(int %d)", v.I)
	case "float":
		return fmt.Sprintf("(float %d)", math.Float64bits(v.F))
	case "str":
		return "(str " + hx(v.str()) + ")"
	case "bool":
		if v.B {
			return "(bool 1)"
		}
		return "(bool 0)"
	case "null":
		return "(null)"
	case "void":
		return "(void)"
	case "regexp":
		return "(regexp " + hx(v.S) + ")"
	case "array":
		var sb strings.Builder
		sb.WriteString("(array")
		for _, x := range v.Arr {
			sb.WriteString(" " + x.Sexp())
		}
		sb.WriteString(")")
		return sb.String()
	case "hash":
		var sb strings.Builder
		sb.WriteString("(hash")
		for i := range v.Keys {
			sb.WriteString(" (" + v.Keys[i].Sexp() + " " + v.Vals[i].Sexp() + ")")
		}
		sb.WriteString(")")
		return sb.String()
	}
	return "(null)"
}

func (v Val) Object() object.Object {
	switch v.Kind {
	case "int":
		return &object.Integer{Value: v.I}
	case "float":
		return &object.Float{Value: v.F}
	case "str":
		return &object.String{Value: v.str()}
	case "bool":
		return &object.Boolean{Value: v.B}
	case "null":
		return &object.Null{}
	case "void":
		return &object.Void{}
	case "regexp":
		return &object.Regexp{Value: v.S}
	case "array":
		els := make([]object.Object, len(v.Arr))
		for i, x := range v.Arr {
			els[i] = x.Object()
		}
		return &object.Array{Elements: els}
	case "hash":
		pairs := make(map[object.HashKey]object.HashPair)
		for i := range v.Keys {
			k := v.Keys[i].Object()
			hk, ok := k.(object.Hashable)
			if !ok {
				continue
			}
			pairs[hk.HashKey()] = object.HashPair{Key: k, Value: v.Vals[i].Object()}
		}
		return &object.Hash{Pairs: pairs}
	}
	return &object.Null{}
}

// ---------- host objects ----------

// HV describes a Go value the way reflect shows it to vm.go.
type HV struct {
	Kind     string // nil int uint f32 f64 str bool time struct slice map nilptr ptr iface opaque
	IntKind  string // int int8 int16 int32 int64
	I        int64
	U        uint64
	F        float64
	S        string
	B        bool
	Fields   []HField
	Els      []HV
	ElemKind string // for slice: static element kind ("iface" or a concrete kind name)
	ElemIface bool  // for map
	KeyKind  string // for map: "str" or "int"
	Entries  [][2]HV
	To       *HV
	Opaque   string // func chan complex array
	SHex     string // for str: the bytes in hex, when they are not valid UTF-8 (JSON could not carry them in S)
	Named    bool   // the Go type is a DEFINED type over the kind (type Level string, type Code int, ...): same value to a script
}

// strBytes: the string a `str` description stands for
func (h HV) strBytes() string {
	if h.SHex != "" {
		b, err := hex.DecodeString(h.SHex)
		if err == nil {
			return string(b)
		}
	}
	return h.S
}

// defined types over the basic kinds, as hosts declare them (`type Level string`)
type namedStr string
type namedInt int
type namedInt64 int64
type namedFloat float64
type namedBool bool

type HField struct {
	Name     string
	Exported bool
	V        HV
}

func (h HV) Sexp() string {
	switch h.Kind {
	case "nil":
		return "(nil)"
	case "int":
		return fmt.Sprintf("(int %s %d)", h.IntKind, h.I)
	case "uint":
		return fmt.Sprintf("(uint %d)", h.U)
	case "f32":
		return fmt.Sprintf("(f32 %d)", math.Float64bits(float64(float32(h.F))))
	case "f64":
		return fmt.Sprintf("(f64 %d)", math.Float64bits(h.F))
	case "str":
		return "(str " + hx(h.strBytes()) + ")"
	case "bool":
		if h.B {
			return "(bool 1)"
		}
		return "(bool 0)"
	case "time":
		return fmt.Sprintf("(time %d)", h.I)
	case "struct":
		var sb strings.Builder
		sb.WriteString("(struct")
		for _, f := range h.Fields {
			e := 0
			if f.Exported {
				e = 1
			}
			fmt.Fprintf(&sb, " (f %s %d %s)", hx(f.Name), e, f.V.Sexp())
		}
		sb.WriteString(")")
		return sb.String()
	case "slice":
		var sb strings.Builder
		sb.WriteString("(slice")
		for _, e := range h.Els {
			sb.WriteString(" " + e.Sexp())
		}
		sb.WriteString(")")
		return sb.String()
	case "map":
		var sb strings.Builder
		ei := 0
		if h.ElemIface {
			ei = 1
		}
		fmt.Fprintf(&sb, "(map %d", ei)
		for _, e := range h.Entries {
			sb.WriteString(" (e " + e[0].Sexp() + " " + e[1].Sexp() + ")")
		}
		sb.WriteString(")")
		return sb.String()
	case "nilptr":
		return "(nilptr)"
	case "ptr":
		return "(ptr " + h.To.Sexp() + ")"
	case "iface":
		return "(iface " + h.To.Sexp() + ")"
	case "opaque":
		return "(opaque)"
	}
	return "(nil)"
}

var timeType = reflect.TypeOf(time.Time{})
var ifaceType = reflect.TypeOf((*interface{})(nil)).Elem()

// goType returns the static Go type used for a value of this description.
func (h HV) goType() reflect.Type {
	if h.Named {
		switch h.Kind {
		case "str":
			return reflect.TypeOf(namedStr(""))
		case "int":
			if h.IntKind == "int64" {
				return reflect.TypeOf(namedInt64(0))
			}
			return reflect.TypeOf(namedInt(0))
		case "f64":
			return reflect.TypeOf(namedFloat(0))
		case "bool":
			return reflect.TypeOf(namedBool(false))
		}
	}
	switch h.Kind {
	case "nil":
		return ifaceType
	case "int":
		switch h.IntKind {
		case "int8":
			return reflect.TypeOf(int8(0))
		case "int16":
			return reflect.TypeOf(int16(0))
		case "int32":
			return reflect.TypeOf(int32(0))
		case "int64":
			return reflect.TypeOf(int64(0))
		}
		return reflect.TypeOf(int(0))
	case "uint":
		return reflect.TypeOf(uint(0))
	case "f32":
		return reflect.TypeOf(float32(0))
	case "f64":
		return reflect.TypeOf(float64(0))
	case "str":
		return reflect.TypeOf("")
	case "bool":
		return reflect.TypeOf(true)
	case "time":
		return timeType
	case "struct":
		var fs []reflect.StructField
		for _, f := range h.Fields {
			sf := reflect.StructField{Name: f.Name, Type: f.V.goType()}
			if !f.Exported {
				sf.PkgPath = "verif/harness"
			}
			fs = append(fs, sf)
		}
		return reflect.StructOf(fs)
	case "slice":
		if h.ElemKind == "iface" || len(h.Els) == 0 && h.ElemKind == "" {
			return reflect.SliceOf(ifaceType)
		}
		return reflect.SliceOf(HV{Kind: h.ElemKind, IntKind: h.IntKind}.goType())
	case "map":
		var kt reflect.Type = reflect.TypeOf("")
		if h.KeyKind == "int" {
			kt = reflect.TypeOf(int(0))
		}
		if h.ElemIface {
			return reflect.MapOf(kt, ifaceType)
		}
		if len(h.Entries) > 0 {
			return reflect.MapOf(kt, h.Entries[0][1].goType())
		}
		return reflect.MapOf(kt, reflect.TypeOf(int(0)))
	case "nilptr":
		return reflect.PtrTo(reflect.TypeOf(int(0)))
	case "ptr":
		return reflect.PtrTo(h.To.goType())
	case "iface":
		return ifaceType
	case "opaque":
		switch h.Opaque {
		case "chan":
			return reflect.TypeOf(make(chan int))
		case "complex":
			return reflect.TypeOf(complex128(0))
		case "array":
			return reflect.TypeOf([2]int{})
		}
		return reflect.TypeOf(func() {})
	}
	return ifaceType
}

// goValue builds the reflect.Value for this description, of type goType().
func (h HV) goValue() reflect.Value {
	t := h.goType()
	v := reflect.New(t).Elem()
	switch h.Kind {
	case "nil":
		// zero interface
	case "int":
		v.SetInt(h.I)
	case "uint":
		v.SetUint(h.U)
	case "f32", "f64":
		v.SetFloat(h.F)
	case "str":
		v.SetString(h.strBytes())
	case "bool":
		v.SetBool(h.B)
	case "time":
		v.Set(reflect.ValueOf(time.Unix(h.I, 0)))
	case "struct":
		for i, f := range h.Fields {
			if f.Exported {
				v.Field(i).Set(f.V.goValue())
			} else {
				// unexported fields cannot be set through reflect; only zero values are used there
			}
		}
	case "slice":
		s := reflect.MakeSlice(t, 0, len(h.Els))
		for _, e := range h.Els {
			ev := e.goValue()
			if t.Elem() == ifaceType {
				iv := reflect.New(ifaceType).Elem()
				if e.Kind != "nil" {
					iv.Set(ev)
				}
				s = reflect.Append(s, iv)
			} else {
				s = reflect.Append(s, ev)
			}
		}
		v.Set(s)
	case "map":
		m := reflect.MakeMap(t)
		for _, e := range h.Entries {
			kv := e[0].goValue()
			vv := e[1].goValue()
			if t.Elem() == ifaceType {
				iv := reflect.New(ifaceType).Elem()
				if e[1].Kind != "nil" {
					iv.Set(vv)
				}
				m.SetMapIndex(kv, iv)
			} else {
				m.SetMapIndex(kv, vv)
			}
		}
		v.Set(m)
	case "nilptr":
		// zero pointer
	case "ptr":
		p := reflect.New(h.To.goType())
		p.Elem().Set(h.To.goValue())
		v.Set(p)
	case "iface":
		if h.To.Kind != "nil" {
			v.Set(h.To.goValue())
		}
	case "opaque":
		// zero value of func/chan/complex/array
	}
	return v
}

// Interface returns the Go value to hand to Run/Execute.
func (h HV) Interface() interface{} {
	if h.Kind == "nil" {
		return nil
	}
	return h.goValue().Interface()
}

// ---------- host functions ----------

type HostFn struct {
	Name string
	Kind string // const arg sum void nil panic
	V    Val
	I    int
}

func (f HostFn) Sexp() string {
	switch f.Kind {
	case "const":
		return "(" + hx(f.Name) + " (const " + f.V.Sexp() + "))"
	case "arg":
		return fmt.Sprintf("(%s (arg %d))", hx(f.Name), f.I)
	}
	return "(" + hx(f.Name) + " (" + f.Kind + "))"
}

// ---------- cases ----------

type Run struct {
	Obj   HV
	Polls int // -1: never cancelled; k: Done() reports cancellation from its k-th call (0-based) on
	Fns   []HostFn `json:",omitempty"` // functions the host registers (again) with AddFunction just before this run
}

type Case struct {
	ID     string
	Script string
	Again  string `json:",omitempty"` // a second script the same evaluator is prepared with after the runs (which are then repeated)
	Opt    bool
	Vars   []struct {
		Name string
		V    Val
	}
	Fns  []HostFn
	Runs []Run
	Show []string
	Tags []string // construct tags for the input distribution
}

func (c *Case) AddVar(name string, v Val) {
	c.Vars = append(c.Vars, struct {
		Name string
		V    Val
	}{name, v})
}

func (c *Case) Sexp() string {
	var sb strings.Builder
	opt := 0
	if c.Opt {
		opt = 1
	}
	fmt.Fprintf(&sb, "(case %s (script %s) (opt %d)", c.ID, hx(c.Script), opt)
	if c.Again != "" {
		sb.WriteString(" (again " + hx(c.Again) + ")")
	}
	if len(c.Vars) > 0 {
		sb.WriteString(" (vars")
		for _, v := range c.Vars {
			sb.WriteString(" (" + hx(v.Name) + " " + v.V.Sexp() + ")")
		}
		sb.WriteString(")")
	}
	if len(c.Fns) > 0 {
		sb.WriteString(" (fns")
		for _, f := range c.Fns {
			sb.WriteString(" " + f.Sexp())
		}
		sb.WriteString(")")
	}
	if len(c.Show) > 0 {
		sb.WriteString(" (show " + strings.Join(c.Show, " ") + ")")
	}
	sb.WriteString(" (runs")
	for _, r := range c.Runs {
		if len(r.Fns) > 0 {
			fmt.Fprintf(&sb, " (run %s %d (fns", r.Obj.Sexp(), r.Polls)
			for _, f := range r.Fns {
				sb.WriteString(" " + f.Sexp())
			}
			sb.WriteString("))")
		} else {
			fmt.Fprintf(&sb, " (run %s %d)", r.Obj.Sexp(), r.Polls)
		}
	}
	sb.WriteString("))")
	return sb.String()
}
