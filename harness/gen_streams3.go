package main

import (
	"encoding/hex"
	"fmt"
	"strings"
)

// ---------- S-opt (C03): optimised vs raw on the real code ----------

var sqrtShapes = []string{"√9", "√16", "√0", "√(4 + 5)", "√9 + 1", "√1"}

var constShapes = []string{"10 + (3 - (1 - 2))", "100 + 3 * (300 * 300)", "1 + 2 + (0 - 5)", "2 * (3 - 5) + 4", "7 - (2 - 9) * 2", "1 + (300 * 300) + 2", "(1 - 2) - (3 - 4)", "5 + (1 - 2) * (3 - 4)", "1 + 2 * (0 - 3) + 4 * 5",
	"256 * 256", "65534 + 2", "32768 + 32768", "65533 + 2", "255 * 257", "65534 + 3", "65534 * 2", "65534 - 65534", "65534 / 65534", "2 - 65534", "256 * 256 == 65536", "256 * 256 > 1",
	"1 + 2", "5 - 3", "3 - 5", "300 * 300", "6 / 2", "7 / 2", "1 / 0", "0 / 5", "2 == 2", "2 == 3", "2 != 2", "2 != 3", "√2", "√2.25", "√Count",
	"1 + 2 + 3", "2 * 3 + 4", "2 + 3 * 4", "(1 + 2) * 3", "10 - 2 - 3", "100 / 10 / 2", "1 + 2 == 3", "65534 + 1", "65534 + 0", "32767 * 2", "0 - 0", "4 * 0", "8 / 8",
	"1 + Count", "Count + 1 + 2", "1 + 2 + Count", "2 * 2 * Count", "1 == 1 && Flag", "true", "false", "1 == 1", "1 == 2", "1 != 1", "!(1 == 1)", "1 + 2 > 2", "1.5 + 1", "\"a\" == \"a\""}

var optTemplates = []struct{ name, tmpl string }{
	{"return", "return %s;"},
	{"assign", "x = %s; return x;"},
	{"if-cond", "if (%s) { rec(1); } else { rec(2); } return 0;"},
	{"if-cond-noelse", "if (%s) { rec(1); } rec(3); return 0;"},
	{"elseif-cond", "if (Flag) { rec(1); } else if (%s) { rec(2); } else { rec(3); } return 0;"},
	{"if-body-first", "if (Flag) { x = %s; rec(x); } return x;"},
	{"if-body-last", "if (Flag) { rec(0); x = %s; } return x;"},
	{"else-body", "if (Flag) { rec(0); } else { x = %s; } return x;"},
	{"after-if", "if (Flag) { rec(0); } x = %s; return x;"},
	{"before-if", "x = %s; if (Flag) { rec(x); } return x;"},
	{"while-cond", "n = 0; while (%s) { n = n + 1; if (n > 2) { return n; } } return n;"},
	{"while-body", "n = 0; while (n < 2) { x = %s; rec(x); n = n + 1; } return x;"},
	{"after-while", "n = 0; while (n < 2) { n = n + 1; } x = %s; return x;"},
	{"foreach-body", "foreach v in [1, 2] { x = %s; rec(x, v); } return x;"},
	{"foreach-iterable", "foreach v in [%s] { rec(v); } return 0;"},
	{"after-foreach", "foreach v in [1] { rec(v); } x = %s; return x;"},
	{"ternary-cond", "x = %s ? 10 : 20; return x;"},
	{"ternary-true", "x = Flag ? %s : 20; return x;"},
	{"ternary-false", "x = Flag ? 10 : %s; return x;"},
	{"ternary-then-op", "x = (Flag ? 1 : 3) + 4; y = %s; return [x, y];"},
	{"op-after-ternary", "return (Flag ? 1 : 3) + (%s);"},
	{"op-before-ternary", "return (%s) + (Flag ? 1 : 3);"},
	{"ternary-eq", "return (Flag ? 2 : 3) == 2;"},
	{"if-ternary-cond", "if (Flag ? false : true) { rec(1); } return %s;"},
	{"switch-value", "switch (%s) { case 3 { rec(3); } case 2 { rec(2); } default { rec(0); } } return 1;"},
	{"case-expr", "switch (Count) { case %s { rec(1); } default { rec(0); } } return 1;"},
	{"case-body", "switch (Count) { case 1 { x = %s; } default { x = 0; } } return x;"},
	{"call-arg", "rec(%s, 2); return 0;"},
	{"array-elem", "return [1, %s, 3];"},
	{"hash-value", "return {\"k\": %s};"},
	{"index", "return [10, 20, 30, 40][%s];"},
	{"function-body", "function f(a) { x = %s; return x; } return f(1);"},
	{"function-cond", "function f(a) { if (%s) { return 1; } return 2; } return f(1);"},
	{"function-noreturn", "function f(a) { x = %s; } f(1); return x;"},
	{"two-consts", "x = %s; y = 2 + 2; return x;"},
	{"compound", "x = 1; x += %s; return x;"},
	{"nested-if", "if (Flag) { if (%s) { rec(1); } else { rec(2); } } return 3;"},
	{"return-in-loop", "foreach v in [1, 2] { if (%s) { return v; } } return 0;"},
	{"trailing-ternary", "x = Flag ? 1 : 2"},
	{"trailing-if", "if (%s) { rec(1); }"},
	{"after-return", "return 1; x = %s;"},
	{"dead-after-if-return", "if (Flag) { return 1; } return %s;"},
}

func pairCases(stream, key string, id *int, script string, r *Rng, show []string, tags []string, nruns int) []GenCase {
	var out []GenCase
	objs := []HV{}
	for k := 0; k < nruns; k++ {
		objs = append(objs, stdObject(r))
	}
	for _, opt := range []bool{true, false} {
		c := Case{ID: fmt.Sprintf("%s-%d", stream, *id), Script: script, Opt: opt, Fns: []HostFn{recFn()}, Tags: tags, Show: show}
		*id++
		for _, o := range objs {
			c.Runs = append(c.Runs, Run{Obj: o, Polls: defaultPolls})
		}
		role := "raw"
		if opt {
			role = "opt"
		}
		out = append(out, GenCase{Case: c, Stream: stream, NonTrivial: true, Pair: key, Role: role, IgnoreKeys: map[string]bool{"k": true}})
	}
	return out
}

func genOpt(stream string, seed uint64, nRandom int) []GenCase {
	r := NewRng(seed)
	var out []GenCase
	id := 0
	n := 0
	for _, t := range optTemplates {
		for _, cs := range constShapes {
			script := t.tmpl
			if strings.Contains(t.tmpl, "%s") {
				script = fmt.Sprintf(t.tmpl, cs)
			}
			out = append(out, pairCases(stream, fmt.Sprintf("opt-%d", n), &id, script, r, []string{"code", "stack"}, []string{"tmpl:" + t.name}, 2)...)
			n++
			if !strings.Contains(t.tmpl, "%s") {
				break
			}
		}
	}
	// constant conditions x what each arm does x what follows: the dead-code, jump and NOP passes all
	// depend on which arm returns and on whether a jump precedes the first return
	arms := []string{"", "x = 1;", "rec(1);", "return 1;", "x = 2; return x;", "rec(2); return 2;"}
	conds := []string{"true", "false", "1 == 1", "1 == 2", "2 * 3 == 6", "1 != 1", "Count == Count"}
	follows := []string{"", "rec(9); return 9;", "return 8;", "x = 7; rec(x);"}
	for _, cnd := range conds {
		for ai, a := range arms {
			for bi, b := range arms {
				f := follows[(ai+bi)%len(follows)]
				for _, script := range []string{
					"if (" + cnd + ") { " + a + " } else { " + b + " } " + f,
					"function g() { if (" + cnd + ") { " + a + " } else { " + b + " } " + f + " } g(); rec(5); return 6;",
					"rec(0); if (" + cnd + ") { " + a + " } " + f,
					"while (" + cnd + ") { " + a + " " + b + " return 4; } " + f,
				} {
					out = append(out, pairCases(stream, fmt.Sprintf("opt-%d", n), &id, script, r, []string{"code", "stack"}, []string{"tmpl:const-cond-arms"}, 1)...)
					n++
				}
			}
		}
	}
	// constant operations right next to jump targets and joins: a fold must never swallow an instruction that
	// some other path jumps to
	for _, script := range []string{"return (Flag ? 2 : 3) + 4;", "x = (Flag ? 2 : 3) * 4 + 1; return x;", "if (Flag) { y = 1; } return 2 + 3;", "while (Off) { return 9; } return 1 + 2 * 3;",
		"return 1 + (Flag ? 2 * 3 : 4 - 1);", "x = Flag ? 1 + 1 : 2 + 2; return x + 3 * 3;", "foreach v in [1 + 1, 2 * 2] { if (v == 2 + 2) { return v + 1 * 1; } } return 0 - 1;",
		"switch (Count) { case 1 + 1 { return 2 * 2; } case 3 { return 3 + 3; } default { return 1 - 1; } }", "return (Flag ? 10 : 20) / 2 - 1 * 2;", "x = 0; if (Flag) { x = 1 + 2; } else { x = 3 * 4; } return x - 1 + 1;",
		"return [1 + 1, Flag ? 2 + 2 : 3 + 3, 4 * 4];", "return {\"a\": 1 + 1, \"b\": Flag ? 2 : 3 + 3};", "function f(a) { return a ? 1 + 1 : 2 * 2; } return f(Flag) + 3 - 3;"} {
		out = append(out, pairCases(stream, fmt.Sprintf("opt-%d", n), &id, script, r, []string{"code", "stack"}, []string{"tmpl:fold-next-to-join"}, 4)...)
		n++
	}
	// the operand bytes in front of a conditional jump take every small value (they coincide with opcode
	// numbers): a bare field, variable, literal or call as the condition, its constant index / value 0..40
	for k := 0; k <= 40; k++ {
		var pre strings.Builder
		for a := 0; a < k; a++ {
			pre.WriteString(fmt.Sprintf("s = \"k%d\"; ", a))
		}
		for _, script := range []string{
			pre.String() + "if (Flag) { rec(1); } else { rec(2); } while (Off) { rec(3); return 3; } return 4;",
			pre.String() + "v = Count; if (v) { rec(1); } x = Flag ? 5 : 6; return x;",
			fmt.Sprintf("if (%d) { rec(1); } else { rec(2); } x = %d ? 5 : 6; while (%d) { return x; } return 0;", k, k, k),
		} {
			out = append(out, pairCases(stream, fmt.Sprintf("opt-%d", n), &id, script, r, []string{"code", "stack"}, []string{"tmpl:operand-byte-before-jump"}, 2)...)
			n++
		}
	}
	for i := 0; i < nRandom; i++ {
		g := newG(r.Fork())
		g.chaos = 3
		g.noSqrt = true // known finding KF-12 (√ of a square literal) has its own reproducer stream
		script := g.program(g.r.Intn(3), 1+g.r.Intn(5), 3)
		// sprinkle constant arithmetic
		script = strings.Replace(script, "= ", "= "+Pick(r, []string{"", "", "1 + 2 + ", "2 * 3 - ", "10 / 2 + "}), 1)
		out = append(out, pairCases(stream, fmt.Sprintf("opt-%d", n), &id, script, r, []string{"code", "stack"}, g.tagList(), 2)...)
		n++
	}
	return out
}

// genOptKnown: reproducers of the recorded optimizer finding KF-12
func genOptKnown(stream string, seed uint64) []GenCase {
	r := NewRng(seed)
	var out []GenCase
	id := 0
	n := 0
	for _, t := range []string{"return %s;", "x = %s; return type(x);", "return [10, 20, 30, 40][%s];", "switch (%s) { case 3 { rec(3); } default { rec(0); } } return 1;"} {
		for _, cs := range sqrtShapes {
			out = append(out, pairCases(stream, fmt.Sprintf("optk-%d", n), &id, fmt.Sprintf(t, cs), r, []string{"code", "stack"}, []string{"known:KF-12"}, 1)...)
			n++
		}
	}
	return out
}

// ---------- S-ctl / S-fn / S-hist ----------

func genCtl(stream string, seed uint64, n int, show []string) []GenCase {
	r := NewRng(seed)
	var out []GenCase
	for i := 0; i < n; i++ {
		g := newG(r.Fork())
		g.chaos = 2
		script := g.program(g.r.Intn(3), 2+g.r.Intn(5), 3)
		rr := r.Fork()
		c := Case{ID: fmt.Sprintf("%s-%d", stream, i), Script: script, Opt: rr.Bool(), Show: show, Fns: []HostFn{recFn()}, Tags: g.tagList()}
		// several objects so that the conditions take different truth values
		for k := 0; k < 3; k++ {
			c.Runs = append(c.Runs, Run{Obj: stdObject(rr), Polls: defaultPolls})
		}
		out = append(out, GenCase{Case: c, Stream: stream, NonTrivial: len(g.tags) >= 4})
	}
	return out
}

// hand-written control-flow templates × iterable shapes × truth assignments
func genCtlTemplates(stream string, seed uint64) []GenCase {
	r := NewRng(seed)
	var out []GenCase
	id := 0
	iterables := []string{"[]", "[7]", "[1, 2, 3]", "\"\"", "\"a\"", "\"héy\"", "{}", "{\"k\": 1}", "{\"b\": 2, \"a\": 1, \"c\": 3}", "(0..0)", "(1..4)", "Tags", "Nums", "Name"}
	tmpls := []string{
		"foreach v in %s { rec(v); } return \"done\";",
		"foreach i, v in %s { rec(i, v); } return \"done\";",
		"n = 0; foreach v in %s { n = n + 1; if (n == 2) { return v; } } return n;",
		"foreach v in %s { foreach w in %s { rec(v, w); } } return 1;",
		"function each(xs) { foreach x in xs { rec(x); } return len(xs); } return each(%s);",
		"out = []; foreach i, v in %s { if (i == 1) { rec(\"second\", v); } else { rec(\"other\", v); } } return i;",
	}
	for _, t := range tmpls {
		for _, it := range iterables {
			script := strings.ReplaceAll(t, "%s", it)
			c := Case{ID: fmt.Sprintf("%s-%d", stream, id), Script: script, Opt: id%2 == 0, Fns: []HostFn{recFn()}, Tags: []string{"foreach-template"},
				Runs: []Run{{Obj: stdObject(r), Polls: defaultPolls}}}
			id++
			out = append(out, GenCase{Case: c, Stream: stream, NonTrivial: true})
		}
	}
	conds := []string{"Flag", "Off", "Count > 0", "Count == 0", "Name == \"bob\"", "len(Tags) > 1", "Score > 1", "Missing"}
	ctl := []string{
		"if (%s) { rec(1); } else if (%s) { rec(2); } else { rec(3); } rec(4); return 5;",
		"if (%s) { if (%s) { rec(1); } rec(2); } return 3;",
		"n = 0; while (%s) { n = n + 1; rec(n); if (n > 2) { return \"cut\"; } } return n;",
		"n = 0; for (n < 3) { n++; if (%s) { rec(n); } } return n;",
		"x = %s ? \"t\" : \"f\"; rec(x); return x;",
		"switch (Count) { case 0 { rec(\"zero\"); } case 1, 2 { rec(\"few\"); } default { rec(\"many\"); } } return 1;",
		"switch (Name) { case \"bob\" { rec(1); } case /^A/ { rec(2); } case \"Alice\" { rec(3); } } return 1;",
		"switch (Count) { default { rec(\"d\"); } case 1 { rec(1); } } return 1;",
		"switch (Count + 1) { case Count + 1 { rec(\"same\"); } case 1 { rec(1); } } return 1;",
		"switch (Score) { case 1 { rec(\"int\"); } case 1.5 { rec(\"float\"); } case \"1.5\" { rec(\"string\"); } default { rec(\"none\"); } } return 1;",
		"if (%s) { return 1; } rec(\"after\"); if (%s) { return 2; } rec(\"end\");",
		"function f(a) { if (a) { return \"yes\"; } rec(\"no-return\"); } x = f(%s); return x;",
	}
	for _, t := range ctl {
		for _, c1 := range conds {
			for _, c2 := range conds[:4] {
				script := strings.Replace(strings.Replace(t, "%s", c1, 1), "%s", c2, 1)
				c := Case{ID: fmt.Sprintf("%s-%d", stream, id), Script: script, Opt: id%2 == 0, Fns: []HostFn{recFn()}, Tags: []string{"control-template"}}
				for k := 0; k < 3; k++ {
					c.Runs = append(c.Runs, Run{Obj: stdObject(r), Polls: defaultPolls})
				}
				id++
				out = append(out, GenCase{Case: c, Stream: stream, NonTrivial: true})
				if !strings.Contains(t, "%s") || strings.Count(t, "%s") < 2 {
					break
				}
			}
			if !strings.Contains(t, "%s") {
				break
			}
		}
	}
	return out
}

// S-fn: functions over a 4-name pool used for parameters, locals, loop variables and globals at once
func genFn(stream string, seed uint64, n int) []GenCase {
	r := NewRng(seed)
	var out []GenCase
	pool := []string{"a", "b", "c", "d"}
	// the call-depth limit counts calls IN PROGRESS: many completed calls in one frame, helper calls at
	// every level of a recursion, and recursion right up to the limit are all fine; one level more is an error
	for k, script := range []string{
		"function id(p) { return p; } i = 0; while (i < 10001) { id(i); i++; } return i;",
		"function id(p) { return p; } function many() { i = 0; while (i < 5001) { id(i); i++; } return i; } a = many(); b = many(); return a + b;",
		"function inc(v) { return v + 1; } function count(n) { if (n == 0) { return 0; } x = inc(n); return count(n - 1) + 1; } return count(6000);",
		"function d(n) { if (n == 0) { return 0; } return d(n - 1); } return d(9999);",
		"function d(n) { if (n == 0) { return 0; } return d(n - 1); } return d(10000);",
		"function a(n) { if (n == 0) { return 0; } return b(n - 1); } function b(n) { if (n == 0) { return 1; } return a(n - 1); } return a(9999);",
	} {
		c := Case{ID: fmt.Sprintf("%s-depth-%d", stream, k), Script: script, Opt: k%2 == 0, Fns: []HostFn{recFn()}, Tags: []string{"call-depth-boundary"},
			Runs: []Run{{Obj: stdObject(r), Polls: -1}}}
		out = append(out, GenCase{Case: c, Stream: stream, NonTrivial: true})
	}
	// leaving a function from inside SEVERAL nested loops (return, error) closes all of their scopes and the
	// function's own: afterwards the caller's variables named like the parameters and loop variables are back
	for k, script := range []string{
		"p = 100; q = 200; function find(p, q) { foreach a in [1, 2] { foreach b in [3, 4] { if (b == q) { return p; } } } return 0; } r = find(7, 3); return [p, q, r, a, b];",
		"p = 100; function find(p) { foreach a in [1, 2] { foreach b in [3, 4] { foreach c in \"xy\" { if (c == \"y\") { return p; } } } } return 0; } r = find(7); return [p, r, a, b, c];",
		"p = 100; function bad(p) { foreach a in [1, 2] { foreach b in [3, 4] { x = 1 / (b - 3); } } return 0; } r = 5; if (Flag) { r = bad(7); } return [p, r];",
		"p = 100; function outer(p) { foreach a in [1] { foreach b in [2] { return inner(p + 1); } } return 0; } function inner(p) { foreach c in [1] { foreach d in [2] { return p * 2; } } return 0; } r = outer(7); return [p, r];",
		"p = 1; function f(p) { foreach i, a in [1, 2] { foreach j, b in {\"k\": 1} { switch (b) { case 1 { return p; } } } } return 0; } x = f(5); y = f(6); return [p, x, y, i, j];",
	} {
		c := Case{ID: fmt.Sprintf("%s-nested-exit-%d", stream, k), Script: script, Opt: k%2 == 0, Fns: []HostFn{recFn()}, Tags: []string{"exit-from-nested-loops"},
			Runs: []Run{{Obj: stdObject(r), Polls: defaultPolls}, {Obj: stdObject(r), Polls: defaultPolls}}}
		out = append(out, GenCase{Case: c, Stream: stream, NonTrivial: true})
	}
	// a function without `return` gives nothing, whatever its last instruction is: sweep the operand of the
	// last instruction of the body (argument counts 0..40 of a final call; the constant index 0..40 of a
	// final v++ / lookup-free statement) - byte values that coincide with opcode numbers included
	for k := 0; k <= 40; k++ {
		var args []string
		for a := 0; a < k; a++ {
			args = append(args, fmt.Sprint(a))
		}
		var pre strings.Builder
		for a := 0; a < k; a++ {
			pre.WriteString(fmt.Sprintf("s = \"k%d\"; ", a))
		}
		for j, script := range []string{
			"function f() { rec(" + strings.Join(args, ", ") + "); } x = f(); return x;",
			"function f() { rec(" + strings.Join(args, ", ") + "); } foreach i in [1, 2, 3] { f(); } return 7;",
			pre.String() + "v = 1; function f() { v++; } f(); f(); x = f(); return v;",
			pre.String() + "v = 1; function f() { v++; } foreach i in [1, 2] { f(); } return v;",
		} {
			c := Case{ID: fmt.Sprintf("%s-lastop-%d-%d", stream, k, j), Script: script, Opt: (k+j)%2 == 0, Fns: []HostFn{recFn()}, Show: []string{"code"},
				Tags: []string{"implicit-return-sweep"}, Runs: []Run{{Obj: stdObject(r), Polls: defaultPolls}}}
			out = append(out, GenCase{Case: c, Stream: stream, NonTrivial: true})
		}
	}
	for i := 0; i < n; i++ {
		rr := r.Fork()
		var sb strings.Builder
		nf := 1 + rr.Intn(3)
		type fi struct {
			name   string
			params []string
		}
		var fs []fi
		for k := 0; k < nf; k++ {
			np := rr.Intn(3)
			var ps []string
			seen := map[string]bool{}
			for len(ps) < np {
				p := Pick(rr, pool)
				if !seen[p] {
					seen[p] = true
					ps = append(ps, p)
				}
			}
			fs = append(fs, fi{fmt.Sprintf("f%d", k), ps})
		}
		body := func(self int, depth int) string {
			var b strings.Builder
			if rr.Chance(50) {
				l := Pick(rr, pool)
				b.WriteString("  local " + l + ";\n  " + l + " = " + fmt.Sprint(rr.Intn(9)) + ";\n")
			}
			ns := 1 + rr.Intn(4)
			for s := 0; s < ns; s++ {
				switch rr.Intn(8) {
				case 0:
					b.WriteString("  " + Pick(rr, pool) + " = " + Pick(rr, pool) + " + " + fmt.Sprint(rr.Intn(5)) + ";\n")
				case 1:
					b.WriteString("  rec(\"" + fs[self].name + "\", a, b, c, d);\n")
				case 2:
					b.WriteString("  foreach " + Pick(rr, pool) + " in [" + fmt.Sprint(rr.Intn(5)) + ", " + fmt.Sprint(rr.Intn(5)) + "] {\n    rec(a, b, c, d);\n" +
						Pick(rr, []string{"", "    if (" + Pick(rr, pool) + " > 2) { return " + Pick(rr, pool) + "; }\n", "    " + Pick(rr, pool) + " = 9;\n"}) + "  }\n")
				case 3:
					if self+1 < len(fs) || rr.Chance(30) {
						callee := self + 1
						if callee >= len(fs) {
							callee = self
						}
						var as []string
						for range fs[callee].params {
							as = append(as, Pick(rr, []string{"a", "b", "c", "d", "1", "2", "a + 1"}))
						}
						guard := ""
						if callee == self {
							guard = "if (depth < 2) { depth = depth + 1; "
						}
						b.WriteString("  " + guard + Pick(rr, pool) + " = " + fs[callee].name + "(" + strings.Join(as, ", ") + ");" + Pick(rr, []string{"", ""}))
						if callee == self {
							b.WriteString(" }")
						}
						b.WriteString("\n")
					}
				case 4:
					b.WriteString("  if (" + Pick(rr, pool) + " > " + fmt.Sprint(rr.Intn(4)) + ") { return " + Pick(rr, pool) + "; }\n")
				case 5:
					b.WriteString("  i = 0; while (i < 2) { i++; " + Pick(rr, pool) + " += 1; " + Pick(rr, []string{"", "if (i == 1) { return i; } "}) + "}\n")
				case 6:
					b.WriteString("  switch (" + Pick(rr, pool) + ") { case 1 { return \"one\"; } default { " + Pick(rr, pool) + " = 0; } }\n")
				default:
					b.WriteString("  " + Pick(rr, pool) + "++;\n")
				}
			}
			if rr.Chance(70) {
				b.WriteString("  return " + Pick(rr, []string{"a", "b", "c", "d", "a + b", "[a, b, c, d]"}) + ";\n")
			}
			return b.String()
		}
		var defs []string
		for k := range fs {
			defs = append(defs, "function "+fs[k].name+"("+strings.Join(fs[k].params, ", ")+") {\n"+body(k, 0)+"}\n")
		}
		early := rr.Bool()
		if early {
			sb.WriteString(strings.Join(defs, ""))
		}
		sb.WriteString("depth = 0;\n")
		for _, p := range pool {
			if rr.Chance(70) {
				sb.WriteString(p + " = " + fmt.Sprint(10+rr.Intn(5)) + ";\n")
			}
		}
		ncalls := 1 + rr.Intn(3)
		for k := 0; k < ncalls; k++ {
			f := Pick(rr, fs)
			var as []string
			for range f.params {
				as = append(as, Pick(rr, []string{"a", "b", "1", "2", "c + 1", "\"s\""}))
			}
			sb.WriteString("r" + fmt.Sprint(k) + " = " + f.name + "(" + strings.Join(as, ", ") + ");\n")
			sb.WriteString("rec(\"top\", a, b, c, d);\n")
		}
		sb.WriteString("return [a, b, c, d];\n")
		if !early {
			sb.WriteString(strings.Join(defs, ""))
		}
		c := Case{ID: fmt.Sprintf("%s-%d", stream, i), Script: sb.String(), Opt: rr.Bool(), Fns: []HostFn{recFn()}, Tags: []string{"functions"},
			Runs: []Run{{Obj: stdObject(rr), Polls: defaultPolls}, {Obj: stdObject(rr), Polls: defaultPolls}}}
		out = append(out, GenCase{Case: c, Stream: stream, NonTrivial: true})
	}
	// the name-clash matrix of the statement: every way the caller can bind a name × every way the
	// callee can bind the same name × call depth; the caller's value must survive, the callee's be gone
	{
		callers := []struct{ name, pre, call, post string }{
			{"param", "function outer(x) { ", "", " return [x, r]; } res = outer(1); return [res, x];"},
			{"local", "function outer() { local x; x = 1; ", "", " return [x, r]; } res = outer(); return [res, x];"},
			{"loopvar", "function outer() { foreach x in [1] { ", "", " out = [x, r]; } return out; } res = outer(); return [res, x];"},
			{"global", "x = 1; ", "", " return [x, r];"},
			{"top-loopvar", "foreach x in [1] { ", "", " out = [x, r]; } return [out, x];"},
			{"index-loopvar", "foreach x, v in [1] { ", "", " out = [x, v, r]; } return [out, x];"},
		}
		callees := []struct{ name, def, call string }{
			{"param", "function inner(x) { x = x + 5; rec(x); return x; }", "inner(7)"},
			{"local", "function inner() { local x; x = 5; rec(x); return x; }", "inner()"},
			{"loopvar", "function inner() { foreach x in [5, 6] { y = x; rec(x); } return y; }", "inner()"},
			{"loopidx", "function inner() { foreach x, v in [5, 6] { y = x + v; } return y; }", "inner()"},
			{"local-rec", "function inner(n) { local x; x = n; if (n > 0) { inner(n - 1); } rec(x); return x; }", "inner(2)"},
			{"param-rec", "function inner(x) { if (x > 0) { inner(x - 1); } rec(x); return x; }", "inner(2)"},
			{"early-return", "function inner() { foreach x in [5, 6] { if (x == 5) { return x; } } return 0; }", "inner()"},
			{"local-in-loop", "function inner() { foreach q in [1, 2] { local x; x = q; } return q; }", "inner()"},
		}
		n := 0
		for _, cr := range callers {
			for _, ce := range callees {
				for depth := 0; depth < 2; depth++ {
					def, call := ce.def, ce.call
					if depth == 1 {
						def += " function mid() { return " + call + "; }"
						call = "mid()"
					}
					script := def + " " + cr.pre + "r = " + call + ";" + cr.post
					c := Case{ID: fmt.Sprintf("%s-clash-%d", stream, n), Script: script, Opt: n%2 == 0, Fns: []HostFn{recFn()},
						Tags: []string{"clash:" + cr.name + "×" + ce.name}, Runs: []Run{{Obj: stdObject(r), Polls: defaultPolls}, {Obj: stdObject(r), Polls: defaultPolls}}}
					n++
					out = append(out, GenCase{Case: c, Stream: stream, NonTrivial: true})
				}
			}
		}
	}
	// fixed cases of the statement
	for k, s := range []string{
		"function f(n) { if (n <= 1) { return 1; } return f(n - 1) * n; } return f(6);",
		"x = 1; function g(x) { x = x + 100; return x; } y = g(5); return [x, y];",
		"x = 1; function g() { local x; x = 7; return x; } y = g(); return [x, y];",
		"x = 1; function g() { foreach x in [5, 6] { rec(x); } return x; } y = g(); return [x, y];",
		"function g() { z = 42; } g(); return z;",
		"r = early(3); function early(n) { foreach i in 1..10 { if (i == n) { return i * 10; } } return -1; } return [r, i, n];",
		"function a1(p) { return b1(p + 1) + p; } function b1(p) { return p * 2; } return a1(3);",
		"function noret() { x = 1; } v = noret(); return v;",
		"function two(a, b) { return a + b; } return two(1);",
		"function two(a, b) { return a + b; } return two(1, 2, 3);",
		"return undefined_function(1);",
		"function len(x) { return 99; } return len(\"abc\");",
		"function print(x) { return 99; } return print(\"shown\");",
		"function outer(a) { function inner(b) { return b + 1; } return inner(a) * 2; } return outer(3);",
		"function f(a) { return a; } function f(a) { return a + 1; } return f(1);",
		"function w(n) { while (true) { n = n + 1; if (n > 3) { return n; } } } return [w(0), n];",
		"function s(v) { switch (v) { case 1 { return \"one\"; } default { return \"other\"; } } } return [s(1), s(2), v];",
		"function deep(n) { foreach a in [1] { foreach b in [2] { while (true) { if (n) { return [a, b]; } } } } } return [deep(1), a, b];",
	} {
		c := Case{ID: fmt.Sprintf("%s-fixed-%d", stream, k), Script: s, Opt: k%2 == 0, Fns: []HostFn{recFn()}, Tags: []string{"function-fixed"},
			Runs: []Run{{Obj: stdObject(r), Polls: defaultPolls}, {Obj: stdObject(r), Polls: defaultPolls}}}
		out = append(out, GenCase{Case: c, Stream: stream, NonTrivial: true})
	}
	return out
}

// S-hist: histories with faults; the used evaluator is compared with a fresh one on the real code
func genHist(stream string, seed uint64, n int) []GenCase {
	r := NewRng(seed)
	var out []GenCase
	faults := []string{
		"if (Count == 0) { return 1 / 0; }",
		"if (Count == 1) { panic(\"stop\"); }",
		"if (Count == 2) { return nosuch(); }",
		"if (Count == 3) { return helper(); }",
		"if (Count == -1) { foreach q in [1, 2, 3] { if (q == 2) { return q; } } }",
		"if (Count == -2) { return inner(1); }",
		"if (Flag) { return [1][0].x; }",
		"if (Name == \"bob\") { while (true) { } }",
		"if (Name == \"\") { return deep(0); }",
	}
	// a run that dies at the call-depth limit (and one that dies by time-out deep inside calls) must not
	// shrink the budget of later runs
	for k, polls := range []int{200000, 30000} {
		cnt := func(v int64) HV {
			return HV{Kind: "struct", Fields: []HField{{"Count", true, HV{Kind: "int", IntKind: "int", I: v}}}}
		}
		c := Case{ID: fmt.Sprintf("%s-depth-%d", stream, k), Opt: k == 0, Fns: []HostFn{recFn()}, Tags: []string{"history", "call-depth"}, Show: []string{"fresh"},
			Script: "function runaway(n) { return runaway(n + 1); } function down(n) { if (n <= 0) { return 0; } return down(n - 1) + 1; } runs = runs + 1; if (Count == 0) { return runaway(0); } return down(Count);"}
		c.AddVar("runs", VInt(0))
		c.Runs = []Run{{Obj: cnt(3), Polls: 5000}, {Obj: cnt(0), Polls: polls}, {Obj: cnt(0), Polls: polls}, {Obj: cnt(3), Polls: 5000}, {Obj: cnt(9000), Polls: 190000}}
		out = append(out, GenCase{Case: c, Stream: stream, NonTrivial: true, Pair: "self", Role: "history"})
	}
	// the SAME host pointer handed to consecutive runs with its fields changed in between (the harness reuses
	// the pointer for consecutive pointer-to-same-struct objects): every run reads the object as it is now
	for k, script := range []string{
		"seen = seen + 1; return [Count, Name, seen];",
		"function get() { return [Count, Name]; } seen = seen + 1; if (Count == 2) { return 1 / 0; } return [get(), seen];",
		"seen = seen + 1; foreach t in Tags { last = t; } return [Tags, last, seen];",
	} {
		mkp := func(cnt int64, name string, tags ...string) HV {
			var els []HV
			for _, t := range tags {
				els = append(els, HV{Kind: "str", S: t})
			}
			st := HV{Kind: "struct", Fields: []HField{{"Count", true, HV{Kind: "int", IntKind: "int", I: cnt}}, {"Name", true, HV{Kind: "str", S: name}},
				{"Tags", true, HV{Kind: "slice", ElemKind: "str", Els: els}}}}
			return HV{Kind: "ptr", To: &st}
		}
		c := Case{ID: fmt.Sprintf("%s-sameptr-%d", stream, k), Opt: k%2 == 0, Fns: []HostFn{recFn()}, Tags: []string{"history", "same-pointer-mutated"}, Show: []string{"fresh"}, Script: script}
		c.AddVar("seen", VInt(0))
		c.Runs = []Run{{Obj: mkp(1, "a", "x"), Polls: defaultPolls}, {Obj: mkp(2, "b", "x", "y"), Polls: defaultPolls}, {Obj: mkp(2, "b", "x", "y"), Polls: defaultPolls},
			{Obj: mkp(3, "c"), Polls: defaultPolls}, {Obj: mkp(1, "a", "z"), Polls: defaultPolls}}
		out = append(out, GenCase{Case: c, Stream: stream, NonTrivial: true, Pair: "self", Role: "history"})
		// ... and an object followed by NO object (nil), by an object of another shape with the same field
		// names, by a map: nothing of the earlier object is seen again
		c2 := Case{ID: fmt.Sprintf("%s-thennil-%d", stream, k), Opt: k%2 == 1, Fns: []HostFn{recFn()}, Tags: []string{"history", "object-then-nil"}, Show: []string{"fresh"}, Script: script}
		c2.AddVar("seen", VInt(0))
		other := HV{Kind: "struct", Fields: []HField{{"Count", true, HV{Kind: "str", S: "not a number"}}, {"Name", true, HV{Kind: "int", IntKind: "int", I: 9}}}}
		asMap := HV{Kind: "map", ElemIface: true, KeyKind: "str", Entries: [][2]HV{{{Kind: "str", S: "Name"}, {Kind: "str", S: "from a map"}}}}
		c2.Runs = []Run{{Obj: mkp(1, "a", "x"), Polls: defaultPolls}, {Obj: HV{Kind: "nil"}, Polls: defaultPolls}, {Obj: mkp(2, "b", "y"), Polls: defaultPolls}, {Obj: other, Polls: defaultPolls},
			{Obj: asMap, Polls: defaultPolls}, {Obj: HV{Kind: "nil"}, Polls: defaultPolls}, {Obj: HV{Kind: "nilptr"}, Polls: defaultPolls}}
		out = append(out, GenCase{Case: c2, Stream: stream, NonTrivial: true, Pair: "self", Role: "history"})
	}
	// failures (not runaway recursion) at the bottom of deep recursions, several times, then ordinary calls:
	// whatever depth was open when a run died is forgotten
	for k, fault := range []string{"return 1 % 0;", "return 1 / 0;", "panic(\"deep\");", "return nosuch();", "return down(1, 2);", "return [1][0].x;"} {
		cnt := func(v int64) HV {
			return HV{Kind: "struct", Fields: []HField{{"Count", true, HV{Kind: "int", IntKind: "int", I: v}}}}
		}
		c := Case{ID: fmt.Sprintf("%s-faultdepth-%d", stream, k), Opt: k%2 == 0, Fns: []HostFn{recFn()}, Tags: []string{"history", "fault-at-depth"}, Show: []string{"fresh"},
			Script: "function down(n) { if (n <= 0) { " + fault + " } return down(n - 1) + 1; } function ok(a) { return a + 1; } runs = runs + 1; if (Count > 0) { return down(Count); } return ok(ok(1));"}
		c.AddVar("runs", VInt(0))
		c.Runs = []Run{{Obj: cnt(0), Polls: 5000}, {Obj: cnt(5000), Polls: 190000}, {Obj: cnt(0), Polls: 5000}, {Obj: cnt(5000), Polls: 190000}, {Obj: cnt(0), Polls: 5000}, {Obj: cnt(4000), Polls: 190000}, {Obj: cnt(0), Polls: 5000}}
		out = append(out, GenCase{Case: c, Stream: stream, NonTrivial: true, Pair: "self", Role: "history"})
	}
	for k, pend := range []string{"return 100 + boom(1);", "return [1, 2, boom(1)];", "return helper2(7, 8, boom(1));", "x = {\"k\": boom(1)}; return x;", "return 100 + argc();", "return 100 + helper2(boom(1), 2, 3) + 5;"} {
		for j, after := range []string{"x = print(Name); return x;", "if (printf(\"%s\", Name)) { return 1; } return 2;", "return rec(1) + 1;", "y = rec(2); return [y];"} {
			flag := func(b bool) HV {
				return HV{Kind: "struct", Fields: []HField{{"Flag", true, HV{Kind: "bool", B: b}}, {"Name", true, HV{Kind: "str", S: "n"}}}}
			}
			c := Case{ID: fmt.Sprintf("%s-pending-%d-%d", stream, k, j), Opt: (k+j)%2 == 0, Fns: []HostFn{recFn()}, Tags: []string{"history", "pending-operands"}, Show: []string{"fresh"},
				Script: "function boom(a) { return a + nosuch(); } function helper2(a, b, c) { return a + b + c; } function argc(a) { return a; } if (Flag) { " + pend + " } " + after}
			c.Runs = []Run{{Obj: flag(false), Polls: defaultPolls}, {Obj: flag(true), Polls: defaultPolls}, {Obj: flag(false), Polls: defaultPolls}, {Obj: flag(true), Polls: defaultPolls}, {Obj: flag(false), Polls: defaultPolls}}
			out = append(out, GenCase{Case: c, Stream: stream, NonTrivial: true, Pair: "self", Role: "history"})
		}
	}
	for i := 0; i < n; i++ {
		rr := r.Fork()
		var sb strings.Builder
		sb.WriteString("function helper(a) { return a; }\n")
		sb.WriteString("function inner(a) { foreach z in [1, 2] { foreach y in \"ab\" { if (a) { return " + Pick(rr, []string{"1 / 0", "z", "nosuch()", "panic(\"in\")", "y"}) + "; } } } return 0; }\n")
		sb.WriteString("function deep(n) { if (n > 3) { " + Pick(rr, []string{"return 1 % 0;", "return n;", "panic();", "return helper();"}) + " } return deep(n + 1); }\n")
		sb.WriteString("runs = runs + 1;\nbig = 70000; big++;\nfl = 2.5; fl--;\n")
		nf := 1 + rr.Intn(3)
		for k := 0; k < nf; k++ {
			sb.WriteString(Pick(rr, faults) + "\n")
		}
		g := newG(rr.Fork())
		sb.WriteString(g.block(2, 0))
		sb.WriteString("total = total + Count;\nreturn [runs, total, big, 70000, fl, 2.5];\n")
		c := Case{ID: fmt.Sprintf("%s-%d", stream, i), Script: sb.String(), Opt: rr.Bool(), Fns: []HostFn{recFn()}, Tags: []string{"history"}, Show: []string{"fresh"}}
		c.AddVar("runs", VInt(0))
		c.AddVar("total", VInt(0))
		nr := 3 + rr.Intn(6)
		for k := 0; k < nr; k++ {
			polls := 3000
			if rr.Chance(15) {
				polls = rr.Intn(40)
			}
			c.Runs = append(c.Runs, Run{Obj: stdObject(rr), Polls: polls})
		}
		out = append(out, GenCase{Case: c, Stream: stream, NonTrivial: true, Pair: "self", Role: "history"})
	}
	return out
}

// S-cancel (C09): every poll budget k up to the length of the run
func genCancel(stream string, seed uint64, n int) []GenCase {
	r := NewRng(seed)
	var out []GenCase
	id := 0
	loops := []string{
		"while (true) { rec(1); }",
		"for (true) { x = 1; }",
		"function spin() { while (true) { rec(2); } } spin();",
		"function rec2(n) { rec(n); return rec2(n + 1); } rec2(0);",
		"foreach a in 1..50 { foreach b in 1..50 { foreach c in 1..50 { rec(a, b, c); } } }",
		"function inner() { foreach q in 1..1000 { rec(q); } return 1; } while (true) { inner(); }",
		"function l3() { while (true) { rec(3); } } function l2() { return l3(); } function l1() { return l2(); } l1();",
		"x = 0; while (x < 10) { x++; rec(x); } return x;",
		"rec(1); rec(2); rec(3); return 4;",
		"return 1;",
	}
	for _, s := range loops {
		for k := 0; k <= 60; k++ {
			c := Case{ID: fmt.Sprintf("%s-%d", stream, id), Script: s, Opt: id%2 == 0, Fns: []HostFn{recFn()}, Tags: []string{"cancel-at-k"},
				Runs: []Run{{Obj: stdObject(r), Polls: k}, {Obj: stdObject(r), Polls: 200}}}
			id++
			out = append(out, GenCase{Case: c, Stream: stream, NonTrivial: true, Role: "cancel"})
		}
	}
	// a context that also has a deadline - far away - is cancelled like any other: what counts is Done()
	for _, s := range []string{"x = 0; while (x < 40) { x++; rec(x); } return x;", "function f(n) { if (n == 0) { return 0; } rec(n); return f(n - 1); } return f(30);",
		"foreach v in 1..30 { foreach w in [1, 2] { rec(v); } } return 1;", "rec(1); rec(2); rec(3); return 4;"} {
		for k := 0; k <= 40; k += 3 {
			c := Case{ID: fmt.Sprintf("%s-%d", stream, id), Script: s, Opt: id%2 == 0, Fns: []HostFn{recFn()}, Tags: []string{"cancel-at-k", "far-deadline"}, Show: []string{"fardeadline"},
				Runs: []Run{{Obj: stdObject(r), Polls: k}, {Obj: stdObject(r), Polls: 2000}}}
			id++
			out = append(out, GenCase{Case: c, Stream: stream, NonTrivial: true, Role: "cancel"})
		}
	}
	for i := 0; i < n; i++ {
		g := newG(r.Fork())
		script := g.program(g.r.Intn(3), 1+g.r.Intn(4), 3)
		for _, k := range []int{0, 1, 2, 3, 5, 8, 13, 21, 34, 55, 89, 144} {
			c := Case{ID: fmt.Sprintf("%s-%d", stream, id), Script: script, Opt: id%2 == 0, Fns: []HostFn{recFn()}, Tags: []string{"cancel-random-program"},
				Runs: []Run{{Obj: stdObject(r), Polls: k}, {Obj: stdObject(r), Polls: -1 + 0*k + 5001}}}
			id++
			out = append(out, GenCase{Case: c, Stream: stream, NonTrivial: true, Role: "cancel"})
		}
	}
	return out
}

// S-alias (C15)
func genAlias(stream string, seed uint64, n int) []GenCase {
	r := NewRng(seed)
	var out []GenCase
	id := 0
	lits := []string{"1", "65534", "65535", "65536", "70000", "1.5", "0.5", "100000.25", "\"s\"", "true", "-3", "9223372036854775806"}
	muts := []string{"%s++;", "%s--;", "%s += 1;", "%s -= 2;", "%s *= 3;", "%s /= 2;", "%s++; %s++;", "%s += 0.5;"}
	for _, l := range lits {
		for _, m := range muts {
			mm := strings.ReplaceAll(m, "%s", "b")
			for _, t := range []string{
				"a = " + l + "; b = a; " + mm + " return [a, b, " + l + "];",
				"a = " + l + "; xs = [a, a]; b = xs[0]; " + mm + " return [a, xs, b, " + l + "];",
				"function f(p) { b = p; " + mm + " return b; } a = " + l + "; r = f(a); return [a, r, " + l + "];",
				"function f(b) { " + mm + " return b; } a = " + l + "; r = f(a); return [a, r, " + l + "];",
				"i = 0; while (i < 3) { b = " + l + "; " + mm + " i++; } return [b, " + l + "];",
				"foreach b in [" + l + ", " + l + "] { " + mm + " rec(b); } return " + l + ";",
				"h = {\"k\": " + l + "}; b = h[\"k\"]; " + mm + " return [h, b];",
				"b = Big; " + mm + " return [b, Big];",
				"b = Score; " + mm + " return [b, Score];",
				"b = Nums[0]; " + mm + " return [b, Nums];",
			} {
				c := Case{ID: fmt.Sprintf("%s-%d", stream, id), Script: t, Opt: id%2 == 0, Fns: []HostFn{recFn()}, Tags: []string{"alias"}}
				o := stdObject(r)
				for k := 0; k < 3; k++ {
					c.Runs = append(c.Runs, Run{Obj: o, Polls: defaultPolls})
				}
				id++
				out = append(out, GenCase{Case: c, Stream: stream, NonTrivial: true, Role: "repeat"})
			}
		}
	}
	// sequences of mutations with aliases taken in between (two ++ on one cell with a copy between
	// them, a copy handed to a function that mutates its parameter, loop counters copied per iteration)
	emit := func(t string) {
		role := "repeat"
		if strings.Contains(t, "if (!") || strings.Contains(t, "Count") || strings.Contains(t, "Score") || strings.Contains(t, "Big") {
			// (a field incremented by its own name becomes a variable of that name, which stays for the next run)
			role = "" // state carried from run to run: the model decides what each run returns
		}
		c := Case{ID: fmt.Sprintf("%s-%d", stream, id), Script: t, Opt: id%2 == 0, Fns: []HostFn{recFn()}, Tags: []string{"alias-seq"}}
		o := stdObject(r)
		for k := 0; k < 3; k++ {
			c.Runs = append(c.Runs, Run{Obj: o, Polls: defaultPolls})
		}
		id++
		out = append(out, GenCase{Case: c, Stream: stream, NonTrivial: true, Role: role})
	}
	for _, l := range []string{"1", "65535", "70000", "1.5"} {
		for _, t := range []string{
			"x = L; x++; y = x; x++; return [x, y];",
			"x = L; x++; y = x; y++; return [x, y];",
			"x = L; x--; y = x; x--; x--; return [x, y];",
			"i = L; last = 0; n = 0; while (n < 3) { last = i; i++; n++; } return [i, last];",
			"function bump(p) { p++; return p; } x = L; x++; r = bump(x); return [x, r];",
			"function bump(p) { p++; p++; return p; } x = L; x++; r = bump(x); s = bump(x); return [x, r, s];",
			"x = L; x++; xs = [x, x]; x++; return [x, xs];",
			"x = L; x++; h = {\"k\": x}; x++; return [x, h];",
			"if (!seen) { seen = true; x = L; } y = x; x++; return [x, y];",
			"x = L; x++; rec(x); y = x; x++; rec(y); rec(x); return y;",
			"function id(p) { return p; } x = L; x++; y = id(x); x++; return [x, y];",
			"x = L; y = L; x++; y++; z = x; x++; y++; return [x, y, z];",
		} {
			emit(strings.ReplaceAll(t, "L", l))
		}
	}
	// a FIELD of the object read into a variable, an array or a hash, then incremented by its own name: the copies stay
	for _, t := range []string{"before = Count; Count++; return [before, Count];", "saved = [Score]; Score--; return [saved[0], Score];", "h = {\"c\": Count}; Count++; Count++; return [h, Count];",
		"before = Big; Big += 1; return [before, Big];", "function keep(p) { return p; } k = keep(Count); Count--; return [k, Count];", "a = Count; b = Count; Count++; return [a, b, Count];"} {
		emit(t)
	}
	// a loop's index / key / element copied out in one turn is a value of its own: later turns do not change it
	for _, t := range []string{
		"found = -1; foreach i, v in [5, 6, 7] { if (v == 5) { found = i; } } return found;",
		"first = -1; foreach i, v in 10..14 { if (i == 1) { first = i; } } return [first];",
		"ks = []; foreach i, v in [\"a\", \"b\", \"c\"] { if (i < 2) { ks = [ks, i]; } } return ks;",
		"function keep(p) { return p; } k = 0; foreach i, v in [9, 8, 7] { if (v == 9) { k = keep(i); } } return k;",
		"h = {}; foreach i, c in \"abc\" { if (c == \"a\") { h = {\"at\": i}; } } return h;",
		"m = 0; foreach k, v in {\"a\": 1, \"b\": 2, \"c\": 3} { if (v == 1) { m = k; } } return m;",
		"x = 0; foreach i, v in [1.5, 2.5, 3.5] { if (i == 0) { x = v; } v++; } return x;",
		"x = 0; foreach v in [70000, 70001] { if (x == 0) { x = v; } v++; } return [x, 70000];",
	} {
		emit(t)
	}
	vars := []string{"a", "b", "c"}
	for i := 0; i < n; i++ {
		var sb strings.Builder
		sb.WriteString("function bump(p) { p++; return p; } if (!init) { init = true; a = " + Pick(r, lits[:8]) + "; b = 1; c = 2.5; } ")
		for k, m := 0, 4+r.Intn(8); k < m; k++ {
			x, y := Pick(r, vars), Pick(r, vars)
			switch r.Intn(9) {
			case 0, 1, 2:
				sb.WriteString(x + Pick(r, []string{"++", "--"}) + "; ")
			case 3, 4:
				sb.WriteString(x + " = " + y + "; ")
			case 5:
				sb.WriteString(x + Pick(r, []string{" += 1", " -= 1", " *= 2"}) + "; ")
			case 6:
				sb.WriteString("rec(bump(" + x + ")); ")
			case 7:
				sb.WriteString("xs = [" + x + ", " + y + "]; rec(xs); ")
			case 8:
				sb.WriteString("rec(" + x + "); ")
			}
		}
		sb.WriteString("return [a, b, c];")
		emit(sb.String())
	}
	return out
}

// S-det (C19): replicas of one case, spread over the worker processes
func genDet(stream string, seed uint64, n int, replicas int) []GenCase {
	r := NewRng(seed)
	var out []GenCase
	fixed := []string{
		"return {\"b\": 1, \"a\": 2, \"c\": 3, 1: 4, \"1\": 5, 1.0: 6, 2.5: 7};",
		"h = {3: \"c\", 1: \"a\", 2: \"b\", \"x\": 0}; s = \"\"; foreach k, v in h { s = s + string(k) + v; } return [s, keys(h), h];",
		"function zeta() { return 1; } function alpha() { return 2; } function mid(a, b) { return a + b; } return zeta() + alpha() + mid(1, 2);",
		"return [\"k9\", \"k1\", 9, 1, 1.5, \"a\", \"a\", 1, true, {\"z\": 1, \"y\": 2}];",
		"x = {\"one\": 1, \"two\": 2, \"three\": 3, \"four\": 4, \"five\": 5, \"six\": 6, \"seven\": 7, \"eight\": 8}; return [x, keys(x), len(x)];",
		"return sort([\"b\", \"a\", \"C\", \"A\", \"c\", \"B\"], true);",
		"return {1: {2: {3: {\"b\": 1, \"a\": 2}}}};",
		// the printed form of an array is its elements joined by ", " between brackets - whatever the last element is
		"return [string([\"a\", \"\"]) == \"[a, ]\", string([\"a \"]) == \"[a ]\", string([\"a,\"]) == \"[a,]\", string([[1, \"\"], 2]) == \"[[1, ], 2]\", string(split(\"x,y,\", \",\")) == \"[x, y, ]\", string([\"\"]) == \"[]\", string([\", \"]) == \"[, ]\"];",
		"return [[\"a\", \"\"], [\"a \"], [\"b,\", \", \"], split(\"x,y,\", \",\"), {\"k\": [\"\", \"\"]}];",
		// keys() lists the keys in the same fixed order, same-spelling keys of different types included
		"h = {1: 1, 1.0: 2, \"1\": 3, 2: 4, 2.0: 5, \"2\": 6, 10: 7, 10.0: 8, \"10\": 9, true: 10, \"true\": 11}; t = \"\"; foreach k in keys(h) { t = t + type(k) + string(h[k]) + \",\"; } u = \"\"; foreach k, v in h { u = u + type(k) + string(v) + \",\"; } return [t, u, t == u];",
		"h = {7.0: \"f\", 7: \"i\", \"7\": \"s\", 8.0: \"f\", 8: \"i\", \"8\": \"s\"}; ks = keys(h); return [type(ks[0]), type(ks[1]), type(ks[2]), type(ks[3]), type(ks[4]), type(ks[5])];",
		// runs that end inside a top-level loop leave nothing behind: a second run is the first one again
		"if (item) { rec(item); return 100; } foreach item in [5, 6] { return item; } return 7;",
		"if (k) { return [k, v]; } foreach k, v in {\"a\": 1} { foreach c in \"xy\" { if (c == \"y\") { return c; } } } return 7;",
		"if (item) { return 100; } foreach item in [5, 6] { rec(item); return 1 / 0; } return 7;",
		"function f() { foreach q in [1, 2] { return q; } return 0; } if (q) { return 100; } foreach w in [3] { if (w) { return f() + w; } } return 7;",
		"h = {1: 1, 1.0: 2, \"1\": 3, 2: 4, 2.0: 5, \"2\": 6, 3: 7, 3.0: 8, \"3\": 9, 10: 10, 10.0: 11, \"10\": 12, true: 13, \"true\": 14, false: 15, \"false\": 16}; s = \"\"; foreach k, v in h { s = s + type(k) + string(v) + \",\"; } return [s, keys(h), h];",
		"h = {7.0: \"f\", 7: \"i\", 8.0: \"f\", 8: \"i\", 9.0: \"f\", 9: \"i\", 11.0: \"f\", 11: \"i\", 12.0: \"f\", 12: \"i\", 13.0: \"f\", 13: \"i\"}; s = \"\"; foreach k, v in h { s = s + v; } return [s, h];",
		"h = {\"5\": \"s\", 5: \"i\", 5.0: \"f\", \"6\": \"s\", 6: \"i\", 6.0: \"f\", \"-1\": \"s\", -1: \"i\", -1.0: \"f\"}; return [keys(h), h, string(h)];",
	}
	id := 0
	mk := func(script string, i int) {
		o := stdObject(r)
		for k := 0; k < replicas; k++ {
			c := Case{ID: fmt.Sprintf("%s-%d", stream, id), Script: script, Opt: i%2 == 0, Fns: []HostFn{recFn()}, Show: []string{"code", "dump"}, Tags: []string{"determinism"},
				Runs: []Run{{Obj: o, Polls: defaultPolls}, {Obj: o, Polls: defaultPolls}}}
			id++
			gc := GenCase{Case: c, Stream: stream, NonTrivial: k == 0, Pair: fmt.Sprintf("det-%d", i), Role: "replica", IgnoreKeys: map[string]bool{"d": true}}
			if k > 0 {
				gc.ModelFree = true
			}
			out = append(out, gc)
		}
	}
	for i, s := range fixed {
		mk(s, i)
	}
	// values print in ONE fixed form, determined by their elements alone: stated directly
	for j, e := range []string{"string([\"a\", \"\"]) == \"[a, ]\"", "string([\"a \"]) == \"[a ]\"", "string([\"a,\"]) == \"[a,]\"", "string([[1, \"\"], 2]) == \"[[1, ], 2]\"",
		"string(split(\"x,y,\", \",\")) == \"[x, y, ]\"", "string([\"\"]) == \"[]\"", "string([\", \"]) == \"[, ]\"", "string([]) == \"[]\"", "string([1, [2, [3, []]]]) == \"[1, [2, [3, []]]]\"",
		"string({\"k\": \"\"}) == \"{k: }\"", "string([true, false]) == \"[true, false]\"", "string([1.5, 2.0]) == \"[1.5, 2]\""} {
		c := Case{ID: fmt.Sprintf("%s-print-%d", stream, j), Script: "return " + e + ";", Opt: j%2 == 0, Fns: []HostFn{recFn()}, Tags: []string{"determinism", "printed-form"},
			Runs: []Run{{Obj: stdObject(r), Polls: defaultPolls}}}
		out = append(out, GenCase{Case: c, Stream: stream, NonTrivial: true, Role: "expecttrue"})
	}
	// a host map whose keys differ only by the legacy `$` prefix: each name still reads one fixed entry
	{
		var ents [][2]HV
		for k, nm := range []string{"Count", "Name", "Score", "Big", "Off", "Kx", "Ky", "Kz"} {
			ents = append(ents, [2]HV{{Kind: "str", S: nm}, {Kind: "int", IntKind: "int", I: int64(k)}})
			ents = append(ents, [2]HV{{Kind: "str", S: "$" + nm}, {Kind: "int", IntKind: "int", I: int64(100 + k)}})
		}
		o := HV{Kind: "map", ElemIface: true, KeyKind: "str", Entries: ents}
		for j, script := range []string{"return [Count, Name, Score, Big, Off, Kx, Ky, Kz];", "return [$Count, $Name, $Score, $Big, $Off, $Kx, $Ky, $Kz];", "return [Count, $Count, Kz, $Kz];", "return [$$Count, $$Name, $$$Kz, $$Missing];"} {
			for k := 0; k < replicas; k++ {
				c := Case{ID: fmt.Sprintf("%s-dollar-%d-%d", stream, j, k), Script: script, Opt: j%2 == 0, Fns: []HostFn{recFn()}, Tags: []string{"determinism", "dollar-keys"},
					Runs: []Run{{Obj: o, Polls: defaultPolls}, {Obj: o, Polls: defaultPolls}}}
				gc := GenCase{Case: c, Stream: stream, NonTrivial: k == 0, Pair: fmt.Sprintf("det-dollar-%d", j), Role: "replica", IgnoreKeys: map[string]bool{"d": true}}
				if k > 0 {
					gc.ModelFree = true
				}
				out = append(out, gc)
			}
		}
	}
	for i := 0; i < n; i++ {
		g := newG(r.Fork())
		script := g.program(1+g.r.Intn(3), 2+g.r.Intn(4), 2)
		mk(script, len(fixed)+i)
	}
	return out
}

// S-api (C20)
func genApi(stream string, seed uint64, n int) []GenCase {
	r := NewRng(seed)
	var out []GenCase
	vals := []Val{VInt(0), VInt(5), VInt(-1), VFloat(2.5), VStr(""), VStr("text"), VBool(true), VBool(false), VNull(), VArr(VInt(1), VStr("x")),
		{Kind: "hash", Keys: []Val{VStr("k")}, Vals: []Val{VInt(1)}}, {Kind: "regexp", S: "a+"}}
	id := 0
	for i, v := range vals {
		for _, s := range []string{"return v;", "w = v; return 1;", "v = 3; return v;", "return type(v);", "if (v) { return true; } return false;", "return;", "return void_fn();", "x = 1;", "return unset;"} {
			c := Case{ID: fmt.Sprintf("%s-%d", stream, id), Script: s, Opt: id%2 == 0, Show: []string{"runbool", "spec"}, Tags: []string{"api:variable"},
				Fns: []HostFn{recFn(), {Name: "void_fn", Kind: "void"}}, Runs: []Run{{Obj: stdObject(r), Polls: defaultPolls}, {Obj: stdObject(r), Polls: defaultPolls}}}
			c.AddVar("v", v)
			if i%3 == 0 {
				c.AddVar("v", vals[(i+1)%len(vals)]) // set twice: the last one wins
				c.AddVar("v", v)
			}
			id++
			out = append(out, GenCase{Case: c, Stream: stream, NonTrivial: true, Role: "api"})
		}
	}
	// a host variable whose NAME begins with `$` is just a name to SetVariable / GetVariable: stored and read back verbatim
	for j, script := range []string{"return 1;", "return v;", "v = 5; return $v;", "w = 2; return w;"} {
		c := Case{ID: fmt.Sprintf("%s-%d", stream, id), Script: script, Opt: j%2 == 0, Show: []string{"runbool", "spec"}, Tags: []string{"api:variable", "dollar-named-variable"}, Fns: []HostFn{recFn()},
			Runs: []Run{{Obj: stdObject(r), Polls: defaultPolls}, {Obj: stdObject(r), Polls: defaultPolls}}}
		c.AddVar("$limit", VInt(17))
		c.AddVar("v", VInt(3))
		c.AddVar("$w", VStr("dollar w"))
		id++
		out = append(out, GenCase{Case: c, Stream: stream, NonTrivial: true, Role: "api"})
	}
	// the same evaluator prepared again with ANOTHER script: variables stay; functions, constants and code of
	// the first script are gone (an unknown function is an error again)
	for j, p := range [][2]string{
		{"function helper(a) { return a + 1; } kept = helper(1); return kept;", "return helper(5);"},
		{"function helper(a) { return a + 1; } kept = helper(1); return kept;", "return kept;"},
		{"function twice(a) { return a * 2; } return twice(2);", "function twice(a) { return a * 3; } return twice(2);"},
		{"x = 1; return [1, 2, 3];", "return x + 70000;"},
		{"function f() { return 1; } return f();", "function g() { return f(); } return g();"},
		{"return 1", "return 2;"},
		{"return 1;", "return 2"},
	} {
		c := Case{ID: fmt.Sprintf("%s-%d", stream, id), Script: p[0], Again: p[1], Opt: j%2 == 0, Show: []string{"spec"}, Tags: []string{"api:prepare-again"}, Fns: []HostFn{recFn()},
			Runs: []Run{{Obj: stdObject(r), Polls: defaultPolls}, {Obj: stdObject(r), Polls: defaultPolls}}}
		id++
		out = append(out, GenCase{Case: c, Stream: stream, NonTrivial: true, Role: "api"})
	}
	// AddFunction between runs, without a new Prepare: the next run calls what is registered NOW - also for a
	// name the script has already called, also for the name of a built-in, also a function added for the first time
	for j, script := range []string{"return k0();", "x = k0(); y = k0(); return [x, y, late()];", "return [len(\"abc\"), k0()];", "function w() { return k0(); } return w();", "if (k0() == 7) { return first(1, 2); } return first(3, 4);"} {
		c := Case{ID: fmt.Sprintf("%s-%d", stream, id), Script: script, Opt: j%2 == 0, Show: []string{"runbool", "spec"}, Tags: []string{"api:function", "add-function-between-runs"},
			Fns: []HostFn{{Name: "k0", Kind: "const", V: VInt(7)}, {Name: "first", Kind: "arg", I: 0}, {Name: "late", Kind: "const", V: VNull()}, recFn()}}
		o := stdObject(r)
		c.Runs = []Run{{Obj: o, Polls: defaultPolls}, {Obj: o, Polls: defaultPolls, Fns: []HostFn{{Name: "k0", Kind: "const", V: VInt(8)}}},
			{Obj: o, Polls: defaultPolls, Fns: []HostFn{{Name: "first", Kind: "arg", I: 1}, {Name: "len", Kind: "const", V: VInt(-1)}, {Name: "late", Kind: "const", V: VStr("now")}}},
			{Obj: o, Polls: defaultPolls}, {Obj: o, Polls: defaultPolls, Fns: []HostFn{{Name: "k0", Kind: "const", V: VStr("nine")}}}}
		id++
		out = append(out, GenCase{Case: c, Stream: stream, NonTrivial: true, Role: "api"})
	}
	// a host variable that happens to be called OPTIMIZE (the name Prepare uses internally as a signal to
	// the VM): NoOptimize must still decide alone whether the code is optimised, and the host's value must
	// be what the script and GetVariable see
	for _, opt := range []bool{true, false} {
		for _, hv := range []Val{VBool(false), VStr("host value"), VInt(0)} {
			for _, s := range []string{"x = 1 + 2; return OPTIMIZE;", "if (true) { OPTIMIZE = 5; } return [OPTIMIZE, 2 * 3];", "return 1 + 2;"} {
				c := Case{ID: fmt.Sprintf("%s-%d", stream, id), Script: s, Opt: opt, Show: []string{"runbool", "spec", "code"}, Tags: []string{"api:optimize-variable"},
					Fns: []HostFn{recFn()}, Runs: []Run{{Obj: stdObject(r), Polls: defaultPolls}, {Obj: stdObject(r), Polls: defaultPolls}}}
				c.AddVar("OPTIMIZE", hv)
				id++
				out = append(out, GenCase{Case: c, Stream: stream, NonTrivial: true, Role: "api"})
			}
		}
	}
	fns := []HostFn{{Name: "k0", Kind: "const", V: VInt(7)}, {Name: "k1", Kind: "const", V: VStr("s")}, {Name: "k2", Kind: "const", V: VBool(false)}, {Name: "k3", Kind: "const", V: VNull()},
		{Name: "k4", Kind: "const", V: VArr(VInt(1))}, {Name: "first", Kind: "arg", I: 0}, {Name: "second", Kind: "arg", I: 1}, {Name: "third", Kind: "arg", I: 2}, {Name: "sum", Kind: "sum"},
		{Name: "nothing", Kind: "void"}, {Name: "len", Kind: "const", V: VInt(-1)}, {Name: "list", Kind: "list"}, recFn()}
	for _, s := range []string{"return k0();", "return k1() + k1();", "return [k0(), k1(), k2(), k3(), k4()];", "return first(1, 2, 3);", "return second(1, 2, 3);", "return third(1, 2);", "return sum(1, 2, 3, \"x\", 4.5);",
		"return sum();", "nothing(1, 2); return 3;", "x = nothing(); return x;", "return len(\"abc\");", "return first(first(first(9)));", "return sum(k0(), second(1, 2), len(1));",
		"return first([1, 2], {\"a\": 1});",
		// a function of the host (or a built-in) wins over a script function of the same name, wherever it is defined
		"function k0() { return 99; } return k0();", "x = k0(); function k0() { return 99; } return [x, k0()];", "function first(a, b) { return b; } return first(1, 2);",
		"function upper(s) { return \"mine\"; } return upper(\"abc\");", "function sum(a) { return -1; } function mine(a) { return sum(a, a); } return mine(4);",
		"function nothing() { return 5; } x = 1; nothing(); return x;", "function rec(a) { return 0; } rec(7); return 1;",
		"a = list(1, 2); b = list(3, 4); return a;", "a = list(1, 2); b = list(3, 4); c = list(5); return [a, b, c];", "kept = list(\"x\", 1.5); rec(7, 8); first(9, 9); return kept;",
		"if (!kept) { kept = list(1, 2, 3); } other = list(4, 5, 6); return [kept, other];", "function f(a, b) { return list(b, a); } x = f(1, 2); y = f(3, 4); return [x, y];",
		"xs = []; foreach v in [1, 2, 3] { xs = list(v, xs); } return xs;", "rec(1); rec(2, 3); rec(); return 0;", "if (k2()) { return 1; } return 2;", "return !k2();", "return k3() == k3();", "foreach v in k4() { rec(v); } return 1;"} {
		c := Case{ID: fmt.Sprintf("%s-%d", stream, id), Script: s, Opt: id%2 == 0, Show: []string{"runbool", "spec"}, Tags: []string{"api:function"}, Fns: fns,
			Runs: []Run{{Obj: stdObject(r), Polls: defaultPolls}, {Obj: stdObject(r), Polls: defaultPolls}}}
		id++
		out = append(out, GenCase{Case: c, Stream: stream, NonTrivial: true, Role: "api"})
	}
	for i := 0; i < n; i++ {
		g := newG(r.Fork())
		script := g.program(g.r.Intn(2), 1+g.r.Intn(4), 2)
		c := Case{ID: fmt.Sprintf("%s-%d", stream, id), Script: script, Opt: r.Bool(), Show: []string{"runbool", "spec"}, Tags: g.tagList(), Fns: []HostFn{recFn()}}
		for k := 0; k < 3; k++ {
			c.Runs = append(c.Runs, Run{Obj: stdObject(r), Polls: defaultPolls})
		}
		id++
		out = append(out, GenCase{Case: c, Stream: stream, NonTrivial: true, Role: "api"})
	}
	return out
}

// S-refl (C04)
func genRefl(stream string, seed uint64, n int) []GenCase {
	r := NewRng(seed)
	var out []GenCase
	id := 0
	scripts := func(names []string) []string {
		var ss []string
		for _, nm := range names {
			ss = append(ss, "return "+nm+";", "return type("+nm+");", "return len("+nm+");", "return "+nm+"[0];", "return [\"\" + string("+nm+"), "+nm+" == "+nm+"];")
		}
		return ss
	}
	leaf := func(rr *Rng) HV {
		switch rr.Intn(16) {
		case 0:
			return HV{Kind: "int", IntKind: "int", I: Pick(rr, []int64{0, 1, -1, 42, 1 << 40})}
		case 1:
			return HV{Kind: "int", IntKind: "int64", I: Pick(rr, []int64{0, -9223372036854775808, 9223372036854775807, 7})}
		case 2:
			return HV{Kind: "int", IntKind: Pick(rr, []string{"int8", "int16", "int32"}), I: int64(rr.Intn(100))}
		case 3:
			return HV{Kind: "uint", U: uint64(rr.Intn(100))}
		case 4:
			return HV{Kind: "f64", F: Pick(rr, []float64{0, 1.5, -2.25, 1e21, 0.1, 3})}
		case 5:
			return HV{Kind: "f32", F: float64(float32(Pick(rr, []float64{0, 1.5, 0.1, 16777217})))}
		case 6:
			return HV{Kind: "str", S: Pick(rr, []string{"", "plain", "héllo", "line\nbreak", "日本"})}
		case 7:
			return HV{Kind: "bool", B: rr.Bool()}
		case 8:
			return HV{Kind: "time", I: Pick(rr, []int64{0, 1600000000, -1, 951782400})}
		case 9:
			k := Pick(rr, []string{"int", "str", "f64", "bool", "int64", "int32", "f32", "time", "uint"})
			nEl := rr.Intn(4)
			var els []HV
			for j := 0; j < nEl; j++ {
				switch k {
				case "int":
					els = append(els, HV{Kind: "int", IntKind: "int", I: int64(rr.Intn(10))})
				case "int64":
					els = append(els, HV{Kind: "int", IntKind: "int64", I: int64(rr.Intn(10))})
				case "int32":
					els = append(els, HV{Kind: "int", IntKind: "int32", I: int64(rr.Intn(10))})
				case "str":
					els = append(els, HV{Kind: "str", S: Pick(rr, []string{"a", "", "é"})})
				case "f64":
					els = append(els, HV{Kind: "f64", F: float64(rr.Intn(5)) + 0.5})
				case "f32":
					els = append(els, HV{Kind: "f32", F: float64(rr.Intn(5)) + 0.5})
				case "bool":
					els = append(els, HV{Kind: "bool", B: rr.Bool()})
				case "time":
					els = append(els, HV{Kind: "time", I: int64(rr.Intn(100000))})
				case "uint":
					els = append(els, HV{Kind: "uint", U: uint64(rr.Intn(9))})
				}
			}
			ik := ""
			ek := k
			if k == "int64" || k == "int32" {
				ik = k
				ek = "int"
			}
			if k == "int" {
				ik = "int"
			}
			return HV{Kind: "slice", ElemKind: ek, IntKind: ik, Els: els}
		case 10:
			return HV{Kind: "slice", ElemKind: "iface", Els: []HV{{Kind: "str", S: "mixed"}, {Kind: "f64", F: 2}, {Kind: "bool", B: true}, {Kind: "nil"}, {Kind: "int", IntKind: "int", I: 3}}}
		case 11:
			return HV{Kind: "map", ElemIface: true, KeyKind: "str", Entries: [][2]HV{{{Kind: "str", S: "x"}, {Kind: "f64", F: 1}}, {{Kind: "str", S: "y"}, {Kind: "str", S: "two"}},
				{{Kind: "str", S: "z"}, {Kind: "nil"}}, {{Kind: "str", S: "w"}, {Kind: "slice", ElemKind: "iface", Els: []HV{{Kind: "f64", F: 9}}}}}}
		case 12:
			return HV{Kind: "ptr", To: &HV{Kind: "int", IntKind: "int", I: 5}}
		case 13:
			return HV{Kind: "struct", Fields: []HField{{"In", true, HV{Kind: "int", IntKind: "int", I: 1}}}}
		case 14:
			return HV{Kind: "iface", To: &HV{Kind: "str", S: "boxed"}}
		default:
			return HV{Kind: "opaque", Opaque: Pick(rr, []string{"func", "chan", "complex", "array"})}
		}
	}
	for i := 0; i < n; i++ {
		rr := r.Fork()
		nf := 1 + rr.Intn(6)
		var fields []HField
		var names []string
		for k := 0; k < nf; k++ {
			nm := fmt.Sprintf("F%d", k)
			fields = append(fields, HField{nm, true, leaf(rr)})
			names = append(names, nm)
		}
		st := HV{Kind: "struct", Fields: fields}
		objs := []HV{st, {Kind: "ptr", To: &st}}
		// the same data as a JSON-shaped map
		var ents [][2]HV
		for _, f := range fields {
			v := f.V
			if v.Kind == "iface" { // in a map[string]interface{} the value IS the boxed value
				v = *v.To
			}
			ents = append(ents, [2]HV{{Kind: "str", S: f.Name}, v})
		}
		objs = append(objs, HV{Kind: "map", ElemIface: true, KeyKind: "str", Entries: ents})
		// the same pointer with its fields updated in place between runs (the harness reuses the pointer
		// when two consecutive runs get a pointer to the same struct type)
		st2 := HV{Kind: "struct"}
		for _, f := range fields {
			st2.Fields = append(st2.Fields, HField{f.Name, f.Exported, mutateHV(f.V)})
		}
		objs = append(objs, HV{Kind: "ptr", To: &st}, HV{Kind: "ptr", To: &st2}, HV{Kind: "ptr", To: &st})
		ss := scripts(append(names, "Missing", "$F0", "$$F0", "$$$F1"))
		ss = append(ss, "F0 = \"shadow\"; return F0;", "return [F0, F1];")
		// a variable of the same name takes precedence - also after the object has been looked at in this run
		shadow := []string{"x = F0; F0 = \"shadow\"; return [x, F0];", "x = F1; F0 = \"shadow\"; return [F0, x, F0];",
			"if (F0 == F0) { F0 = 7; } return F0;", "y = [F0, F1, Missing]; F0 = 1; F1 = 2; Missing = 3; return [F0, F1, Missing, y];",
			"F0 = F0; F0 = [F0, F0]; return F0;", "x = F1; return [HostV, F0, x, HostV];", "foreach v in [1, 2] { F0 = v; w = F1; } return [F0, w];",
			// the legacy `$` prefix names the same thing as the bare name: the variable first, then the field
			"F0 = \"shadow\"; return [$F0, F0, $F1];", "function g(F0) { return [$F0, F0]; } return [g(7), $F0];", "x = $F0; F0 = 1; return [x, $F0, F0];",
			"return [$HostV, HostV, $F1, F1];",
			// a variable whose value is null shadows the field like any other
			"F0 = Missing; return [F0, type(F0), F1];", "function g() { local F0; return [F0, F1]; } return [g(), F0];",
			"function g() { local F1; F1 = Missing; return F1; } x = g(); F0 = x; return [x, F0, F1];", "return [NullV, F0, HostV];"}
		for _, s := range append(ss, shadow...) {
			c := Case{ID: fmt.Sprintf("%s-%d", stream, id), Script: s, Opt: id%2 == 0, Tags: []string{"reflect"}}
			if strings.Contains(s, "HostV") {
				// a host variable that has the name of a field of a later object
				c.AddVar("HostV", VInt(10))
				c.AddVar("F1", VStr("host variable F1"))
				c.Tags = append(c.Tags, "shadow-host-variable")
			}
			if strings.Contains(s, "NullV") {
				// a host variable holding null, named like a field
				c.AddVar("NullV", VNull())
				c.AddVar("F0", VNull())
				c.Tags = append(c.Tags, "shadow-null-variable")
			}
			if inStrs(shadow, s) {
				c.Tags = append(c.Tags, "shadow-after-lookup")
			}
			for _, o := range objs {
				c.Runs = append(c.Runs, Run{Obj: o, Polls: defaultPolls})
			}
			// each run sees the object passed to that run, not an earlier one
			c.Runs = append(c.Runs, Run{Obj: HV{Kind: "struct", Fields: []HField{{"F0", true, HV{Kind: "str", S: "other object"}}}}, Polls: defaultPolls})
			c.Runs = append(c.Runs, Run{Obj: HV{Kind: "nil"}, Polls: defaultPolls})
			id++
			out = append(out, GenCase{Case: c, Stream: stream, NonTrivial: true})
		}
	}
	// strings that only a HOST can make: bytes that are not valid UTF-8, embedded NUL - read, measured, indexed,
	// iterated and compared exactly as they are (judged by direct expectations: the model's strings are Unicode)
	for k, raw := range []string{"ab\xff\xfecd\xc3", "a\xffbcd", "\xe6\x97", "x\x00y", "\xf0\x9f\x98", "ok\xc0\xafz", "\xff"} {
		hv := HV{Kind: "str", SHex: hex.EncodeToString([]byte(raw))}
		st := HV{Kind: "struct", Fields: []HField{{"Payload", true, hv}, {"Plain", true, HV{Kind: "str", S: "plain"}}}}
		mp := HV{Kind: "map", ElemIface: true, KeyKind: "str", Entries: [][2]HV{{{Kind: "str", S: "Payload"}, hv}, {{Kind: "str", S: "Plain"}, {Kind: "str", S: "plain"}}}}
		nrunes := len([]rune(raw))
		for j, sc := range []struct{ script, role string }{
			{"return Payload;", "expect:" + hexs(raw)},
			{"return Payload == Same;", "expecttrue"},
			{fmt.Sprintf("return len(Payload) == %d;", nrunes), "expecttrue"},
			{"n = 0; foreach c in Payload { n++; } return n == len(Payload);", "expecttrue"},
			{"n = 0; last = -1; foreach i, c in Payload { n++; last = i; } return last == len(Payload) - 1 && n == len(Payload);", "expecttrue"},
			{"s = \"\"; foreach c in Payload { s = s + c; } return len(s) == len(Payload);", "expecttrue"},
			{"return Payload + \"\" == Same && Same + Plain == Payload + Plain;", "expecttrue"},
		} {
			for oi, o := range []HV{st, mp} {
				c := Case{ID: fmt.Sprintf("%s-rawstr-%d-%d-%d", stream, k, j, oi), Script: sc.script, Opt: (k+j)%2 == 0, Tags: []string{"reflect", "host-only-string"},
					Runs: []Run{{Obj: o, Polls: defaultPolls}}}
				c.Vars = append(c.Vars, struct {
					Name string
					V    Val
				}{"Same", Val{Kind: "str", SHex: hex.EncodeToString([]byte(raw))}})
				out = append(out, GenCase{Case: c, Stream: stream, NonTrivial: true, Role: sc.role, ModelFree: true})
			}
		}
	}
	// fields whose Go types are DEFINED types over the basic kinds (type Level string, type Code int, ...), in a
	// struct, behind a pointer, inside an interface, as values of a JSON-shaped map: the same values to a script
	{
		named := []HField{{"Level", true, HV{Kind: "str", S: "warn", Named: true}}, {"Code", true, HV{Kind: "int", IntKind: "int", I: 404, Named: true}},
			{"Big", true, HV{Kind: "int", IntKind: "int64", I: 9007199254740993, Named: true}}, {"Ratio", true, HV{Kind: "f64", F: 0.25, Named: true}},
			{"On", true, HV{Kind: "bool", B: true, Named: true}}, {"Plain", true, HV{Kind: "str", S: "plain"}},
			{"Boxed", true, HV{Kind: "iface", To: &HV{Kind: "str", S: "boxed", Named: true}}}}
		st := HV{Kind: "struct", Fields: named}
		var ents [][2]HV
		for _, f := range named {
			v := f.V
			if v.Kind == "iface" {
				v = *v.To
			}
			ents = append(ents, [2]HV{{Kind: "str", S: f.Name}, v})
		}
		for _, s := range []string{"return [Level, Code, Big, Ratio, On, Plain, Boxed];", "return Level == \"warn\" && Code == 404 && On;", "return [type(Level), type(Code), type(Ratio), type(On), len(Level), Code + 1, Ratio * 2];",
			"return Plain;", "if (Level ~= /^w/) { return Code; } return 0;"} {
			c := Case{ID: fmt.Sprintf("%s-%d", stream, id), Script: s, Opt: id%2 == 0, Tags: []string{"reflect", "named-types"}}
			c.Runs = []Run{{Obj: st, Polls: defaultPolls}, {Obj: HV{Kind: "ptr", To: &st}, Polls: defaultPolls}, {Obj: HV{Kind: "map", ElemIface: true, KeyKind: "str", Entries: ents}, Polls: defaultPolls}}
			id++
			out = append(out, GenCase{Case: c, Stream: stream, NonTrivial: true})
		}
	}
	for k := 0; k < 9; k++ {
		for _, s := range []string{"return Count;", "return Name;", "return [Count, Name, Tags, Nums, Flag, Score, Big];", "return 1;"} {
			c := Case{ID: fmt.Sprintf("%s-%d", stream, id), Script: s, Opt: id%2 == 0, Tags: []string{"odd-object"}}
			rr := NewRng(uint64(k))
			var o HV
			for { // pick the k-th odd object deterministically
				o = oddObject(rr)
				break
			}
			_ = o
			c.Runs = []Run{{Obj: oddObjectN(k), Polls: defaultPolls}, {Obj: stdObject(r), Polls: defaultPolls}}
			id++
			out = append(out, GenCase{Case: c, Stream: stream, NonTrivial: true})
		}
	}
	return out
}

func oddObjectN(k int) HV {
	// enumerate the variants of oddObject
	for seed := uint64(0); seed < 1000; seed++ {
		r := NewRng(seed)
		if r.Intn(9) == k {
			return oddObject(NewRng(seed))
		}
	}
	return HV{Kind: "nil"}
}

// mutateHV: a value of the same Go type with different content
func mutateHV(v HV) HV {
	w := v
	switch v.Kind {
	case "int", "time":
		w.I = v.I/2 + 1
	case "uint":
		w.U = v.U + 1
	case "f64", "f32":
		w.F = v.F + 1
	case "str":
		w.S = v.S + "'"
	case "bool":
		w.B = !v.B
	case "slice":
		if len(v.Els) > 0 {
			w.Els = append([]HV{mutateHV(v.Els[len(v.Els)-1])}, v.Els...)
		}
	case "ptr", "iface":
		if v.To != nil {
			t := mutateHV(*v.To)
			w.To = &t
		}
	case "struct":
		w.Fields = nil
		for _, f := range v.Fields {
			w.Fields = append(w.Fields, HField{f.Name, f.Exported, mutateHV(f.V)})
		}
	case "map":
		w.Entries = nil
		for _, e := range v.Entries {
			w.Entries = append(w.Entries, [2]HV{e[0], mutateHV(e[1])})
		}
	}
	return w
}

// S-wf-shapes (C18): bodies ending in every kind of statement, nested definitions, empty bodies,
// constructs back to back (join placeholders), and sizes around the 16-bit operand limits
// programs and function bodies at the size limit (65536 bytes): exactly at it and one byte over - the last
// statement an `if` whose exit jump points at the last byte. `x = 1;` is 7 bytes and `x = 1 + 1;` 11 without
// the optimizer's help, so every size near the limit can be hit exactly.
func genSizeLimit(stream string, r *Rng) []GenCase {
	var out []GenCase
	id := 0
	for _, target := range []int{65536, 65537} {
		for variant := 0; variant < 2; variant++ {
			need := target - 7 // the final `if (x) { }`: lookup 3 + jump-if-false 3 + placeholder 1
			if variant == 1 {
				need -= 2 // the implicit `void; return` of a function body
			}
			b := 0
			for (need-11*b)%7 != 0 {
				b++
			}
			a := (need - 11*b) / 7
			var sb strings.Builder
			sb.WriteString(strings.Repeat("x = 1; ", a))
			sb.WriteString(strings.Repeat("x = 1 + 1; ", b))
			sb.WriteString("if (x) { }")
			script := sb.String()
			tag := "main-at-size-limit"
			if variant == 1 {
				script = "function big() { " + script + " } big(); return 7;"
				tag = "function-at-size-limit"
			}
			c := Case{ID: fmt.Sprintf("%s-size-%d", stream, id), Script: script, Opt: false, Tags: []string{tag, fmt.Sprint(target)}, Fns: []HostFn{recFn()},
				Runs: []Run{{Obj: stdObject(r), Polls: 400000}}}
			id++
			out = append(out, GenCase{Case: c, Stream: stream, NonTrivial: true})
		}
	}
	return out
}

// strings only a host can make (invalid UTF-8, embedded NUL), iterated: foreach visits exactly len(s)
// characters, with the indexes 0..len-1, and indexing agrees with iteration
func genHostStrings(stream string) []GenCase {
	var out []GenCase
	for k, raw := range []string{"ab\xff\xfecd\xc3", "a\xffbcd", "\xe6\x97", "x\x00y", "\xf0\x9f\x98", "ok\xc0\xafz", "\xff", "é\xffü"} {
		hv := HV{Kind: "str", SHex: hex.EncodeToString([]byte(raw))}
		st := HV{Kind: "struct", Fields: []HField{{"Payload", true, hv}}}
		for j, script := range []string{
			"n = 0; foreach c in Payload { n++; } return n == len(Payload);",
			"n = 0; last = -1; foreach i, c in Payload { if (i != n) { return false; } n++; last = i; } return last == len(Payload) - 1;",
			"i = 0; foreach c in Payload { if (c != Payload[i]) { return false; } i++; } return type(Payload[i]) == \"null\";",
			"n = 0; foreach c in Payload { foreach d in Payload { n++; } } return n == len(Payload) * len(Payload);",
		} {
			c := Case{ID: fmt.Sprintf("%s-%d-%d", stream, k, j), Script: script, Opt: (k+j)%2 == 0, Tags: []string{"host-only-string", "foreach-string"},
				Runs: []Run{{Obj: st, Polls: defaultPolls}}}
			out = append(out, GenCase{Case: c, Stream: stream, NonTrivial: true, Role: "expecttrue", ModelFree: true})
		}
	}
	return out
}

func genWfShapes(stream string, seed uint64) []GenCase {
	r := NewRng(seed)
	var out []GenCase
	id := 0
	add := func(script string, tags ...string) {
		for _, opt := range []bool{true, false} {
			c := Case{ID: fmt.Sprintf("%s-%d", stream, id), Script: script, Opt: opt, Tags: tags, Show: []string{"code", "wf"}, Fns: []HostFn{recFn()},
				Runs: []Run{{Obj: stdObject(r), Polls: defaultPolls}}}
			id++
			out = append(out, GenCase{Case: c, Stream: stream, NonTrivial: true})
		}
	}
	out = append(out, genSizeLimit(stream, r)...)
	id += 4
	lasts := []string{"", "x = 1;", "x = a + 1;", "rec(a);", "a;", "1;", "return a;", "return;", "local q;", "local q; q = 2;", "x++;", "x += 2;",
		"if (a) { return 1; }", "if (a) { return 1; } else { return 2; }", "if (a) { x = 1; } else if (b) { x = 2; } else { x = 3; }",
		"while (x < 3) { x++; }", "while (false) { return 1; }", "foreach v in [1, 2] { rec(v); }", "foreach i, v in [1, 2] { return v; }",
		"switch (a) { case 1 { return 1; } default { return 2; } }", "switch (a) { case 1 { x = 1; } }", "switch (a) { default { x = 1; } }", "switch (a) { }",
		"function inner(p) { return p * 2; }", "function inner(p) { x = p; }", "function inner() { }", "function inner(p) { function innermost(q) { return q; } }",
		"x = a ? 1 : 2;", "return a ? 1 : 2;", "return inner2(a);", "y = [1, 2, a];", "y = {\"k\": a};"}
	for _, first := range []string{"", "b = a + 1;", "if (a) { b = 1; }", "function early(z) { return z; }"} {
		for _, last := range lasts {
			body := strings.TrimSpace(first + " " + last)
			add("function outer(a) { "+body+" } function inner2(p) { return p; } r = outer(1); return 7;", "function-ending")
			add("function outer(a) { "+body+" } function inner2(p) { return p; } return outer(1);", "function-ending-value-used")
		}
	}
	// main bodies ending in / consisting of each construct; constructs back to back
	for _, a := range lasts {
		for _, b := range []string{"", "return 5;", "if (x) { y = 1; }", "while (false) { }", "z = 1 ? 2 : 3;"} {
			add("a = 1; b = 0; x = 0; "+a+" "+b, "main-ending")
		}
	}
	// sizes around the operand limits: many constants, long bodies, large literals
	for _, n := range []int{250, 257, 1000} {
		var sb strings.Builder
		for k := 0; k < n; k++ {
			fmt.Fprintf(&sb, "v%d = \"s%d\"; ", k, k)
		}
		sb.WriteString("if (v1 == \"s1\") { return v2; } return v3;")
		add(sb.String(), "many-constants")
	}
	// a function whose last instruction's operand byte takes every small value (one of them equals the
	// OpReturn opcode; the implicit return must not be decided on that byte)
	for k := 18; k <= 30; k++ {
		var sb strings.Builder
		for j := 0; j < k; j++ {
			fmt.Fprintf(&sb, "c%d = 1; ", j)
		}
		add(sb.String()+"function f() { \"last\"; } function g() { q++; } f(); g(); return 1;", "operand-byte-sweep")
	}
	for _, lit := range []string{"65534", "65535", "65536", "70000", "131071"} {
		add("x = "+lit+"; if (x == "+lit+") { return "+lit+" + 1; } return 0;", "literal-limits")
		add("function f(a) { if (a) { return "+lit+"; } return [ "+lit+", "+lit+" ]; } return f(1);", "literal-limits")
	}
	{
		var sb strings.Builder
		sb.WriteString("x = 0; if (x == 0) { ")
		for k := 0; k < 3000; k++ {
			sb.WriteString("x = x + 1; ")
		}
		sb.WriteString("} else { x = 7; } while (x > 2990) { x = x - 1; } return x;")
		add(sb.String(), "long-jumps")
	}
	// one expression that holds hundreds or thousands of operands on the value stack at once (array, hash,
	// call), whose elements are then used, and more work on the same stack afterwards
	for _, n := range []int{255, 256, 1023, 1024, 1025, 1500, 2049} {
		var els, pairs strings.Builder
		for k := 0; k < n; k++ {
			if k > 0 {
				els.WriteString(", ")
				pairs.WriteString(", ")
			}
			fmt.Fprintf(&els, "%d", k)
			fmt.Fprintf(&pairs, "%d: %d", k, k*2)
		}
		add(fmt.Sprintf("a = [%s]; b = [a[0], a[1], a[%d], a[%d], len(a)]; t = 0; foreach v in a { t = t + v; } return [b, t, [1, 2, 3][1]];", els.String(), n/2, n-1), "wide-operand-stack")
		add(fmt.Sprintf("function first(xs) { return xs[0] + 1; } return [first([%s]), 5, len([%s])];", els.String(), els.String()), "wide-operand-stack")
		add(fmt.Sprintf("return 1 + len([%s]) * 2;", els.String()), "wide-operand-stack")
		if n <= 1500 {
			add(fmt.Sprintf("h = {%s}; return [h[0], h[1], h[%d], len(keys(h)), [7][0]];", pairs.String(), n-1), "wide-operand-stack")
		}
	}
	return out
}

func inStrs(xs []string, x string) bool {
	for _, y := range xs {
		if x == y {
			return true
		}
	}
	return false
}
