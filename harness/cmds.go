package main

// Sub-commands used by the supporting checks of ./check: deep (C08), wallclock (C09), cli (C20).

import (
	"context"
	"encoding/json"
	"fmt"
	"os"
	"os/exec"
	"path/filepath"
	"strings"
	"time"

	evalfilter "github.com/skx/evalfilter/v2"
	"github.com/skx/evalfilter/v2/object"
)

func argOf(name, def string) string {
	for i := 2; i+1 < len(os.Args); i += 2 {
		if os.Args[i] == name {
			return os.Args[i+1]
		}
	}
	return def
}

func deepMain() int {
	shape := argOf("-shape", "paren")
	var n int
	fmt.Sscanf(argOf("-n", "1000"), "%d", &n)
	var script string
	switch shape {
	case "paren":
		script = "return " + strings.Repeat("(", n) + "1" + strings.Repeat(")", n) + ";"
	case "array":
		script = "return " + strings.Repeat("[", n) + "1" + strings.Repeat("]", n) + ";"
	case "block":
		script = strings.Repeat("if (true) { ", n) + "x = 1;" + strings.Repeat(" }", n) + " return x;"
	case "unary":
		script = "return " + strings.Repeat("!", n) + "true;"
	case "long":
		script = strings.Repeat("x = 1;\n", n) + "return x;"
	case "longexpr":
		script = "return 1" + strings.Repeat(" + 1", n) + ";"
	}
	status := "?"
	code := 0
	func() {
		defer func() {
			if r := recover(); r != nil {
				status = fmt.Sprint("PANIC ESCAPED: ", r)
				code = 3
			}
		}()
		e := evalfilter.New(script)
		err := e.Prepare()
		if err != nil {
			status = "prepare: error (" + truncate(err.Error(), 60) + ")"
			return
		}
		out, err := e.Execute(nil)
		if err != nil {
			status = "execute: error"
		} else {
			status = "execute: " + string(out.Type())
		}
		old := os.Stdout
		null, _ := os.Open(os.DevNull)
		os.Stdout, _ = os.OpenFile(os.DevNull, os.O_WRONLY, 0)
		derr := e.Dump()
		os.Stdout = old
		null.Close()
		if derr != nil {
			status += " dump: error"
		}
	}()
	fmt.Println(status)
	return code
}

func wallclockMain() int {
	loops := []string{
		"while (true) { }",
		"x = 0; for (true) { x = x + 1; }",
		"function spin() { while (true) { } } spin();",
		"function r(n) { return r(n + 1); } r(0);",
		"foreach a in 1..100000 { foreach b in 1..100000 { c = a * b; } }",
		"function inner() { foreach q in 1..100000 { z = q; } return 1; } while (true) { inner(); }",
	}
	bad := 0
	worst := time.Duration(0)
	for _, s := range loops {
		for _, d := range []time.Duration{0, time.Millisecond, 10 * time.Millisecond, 100 * time.Millisecond, 300 * time.Millisecond} {
			ctx, cancel := context.WithTimeout(context.Background(), d)
			e := evalfilter.New(s)
			e.SetContext(ctx)
			if err := e.Prepare(); err != nil {
				fmt.Println("prepare failed", err)
				cancel()
				return 1
			}
			start := time.Now()
			_, err := e.Run(nil)
			el := time.Since(start)
			cancel()
			over := el - d
			if over > worst {
				worst = over
			}
			// (unbounded recursion ends with the call-depth error before a long deadline: any error is a stop)
			if err == nil || (d <= 10*time.Millisecond && !strings.Contains(err.Error(), "timeout") && !strings.Contains(err.Error(), "call depth")) {
				fmt.Printf("WALLCLOCK: %q with deadline %v ended without an error: %v\n", s, d, err)
				bad++
			} else if over > 400*time.Millisecond {
				fmt.Printf("WALLCLOCK: %q with deadline %v returned %v late\n", s, d, over)
				bad++
			}
		}
		// explicit cancellation from another goroutine
		ctx, cancel := context.WithCancel(context.Background())
		e := evalfilter.New(s)
		e.SetContext(ctx)
		e.Prepare()
		go func() { time.Sleep(20 * time.Millisecond); cancel() }()
		start := time.Now()
		_, err := e.Run(nil)
		if el := time.Since(start); err == nil || el > 420*time.Millisecond {
			fmt.Printf("WALLCLOCK: %q cancelled after 20ms: err=%v after %v\n", s, err, el)
			bad++
		}
	}
	// a script that finishes before the deadline is unaffected
	ctx, cancel := context.WithTimeout(context.Background(), 5*time.Second)
	e := evalfilter.New("x = 0; while (x < 1000) { x = x + 1; } return x;")
	e.SetContext(ctx)
	e.Prepare()
	out, err := e.Execute(nil)
	cancel()
	if err != nil || out.Inspect() != "1000" {
		fmt.Printf("WALLCLOCK: a finishing script was affected: %v %v\n", out, err)
		bad++
	}
	fmt.Printf("%d loops x 6 deadlines, worst overrun %v, %d problems\n", len(loops), worst, bad)
	if bad > 0 {
		return 1
	}
	return 0
}

func jsonDoc(r *Rng) map[string]interface{} {
	return map[string]interface{}{
		"Count": float64(r.Intn(7) - 2), "Big": float64(Pick(r, []int{0, 1, 65535, 70000})), "Score": Pick(r, []float64{0, 0.5, 1.5, -2.25}),
		"Name": Pick(r, []string{"", "bob", "Alice", "héllo", "10"}), "Flag": r.Bool(), "Off": false,
		"Tags": []interface{}{"x", "yy"}[:r.Intn(3)], "Nums": []interface{}{1.0, 2.0, 3.0}[:r.Intn(4)],
		"Nested": map[string]interface{}{"k": "v", "n": 1.0}, "Nothing": nil,
	}
}

func cliMain() int {
	bin := argOf("-bin", "")
	tmp := argOf("-tmp", os.TempDir())
	var n int
	var seed uint64
	fmt.Sscanf(argOf("-n", "50"), "%d", &n)
	fmt.Sscanf(argOf("-seed", "1"), "%d", &seed)
	r := NewRng(seed)
	dir, err := os.MkdirTemp(tmp, "cli-")
	if err != nil {
		fmt.Println(err)
		return 1
	}
	defer os.RemoveAll(dir)
	bad := 0
	runBin := func(args ...string) (string, int) {
		ctx, cancel := context.WithTimeout(context.Background(), 20*time.Second)
		defer cancel()
		cmd := exec.CommandContext(ctx, bin, args...)
		cmd.Env = append(os.Environ(), "TZ=UTC")
		out, err := cmd.CombinedOutput()
		code := 0
		if err != nil {
			code = 1
			if ee, ok := err.(*exec.ExitError); ok {
				code = ee.ExitCode()
			}
		}
		return string(out), code
	}
	for i := 0; i < n; i++ {
		g := newG(r.Fork())
		g.chaos = 5
		g.noPrint = false
		script := g.program(g.r.Intn(2), 1+g.r.Intn(4), 2)
		// every kind of JSON value is looked at with its type, in arithmetic, in a condition and in a loop
		fixedCli := []string{"return [Count, Big, Score, type(Count), type(Big), type(Score)];", "return Count + 1;", "if (Big > 100) { return Score * 2; } return Count - 1;",
			"return [type(Name), type(Flag), type(Off), type(Tags), type(Nums), type(Nested), type(Nothing), type(Missing)];", "t = 0; foreach n in Nums { t = t + n; } return [t, len(Nums), len(Tags)];",
			"return Nested.n + 1;", "return [Flag && !Off, Name + \"!\", len(Name)];", "return Count == 0 || Score == 0.5 || Big == 65535;",
			// printed values with characters that mean something to a formatter, a shell or a terminal
			"return \"100%\";", "return sprintf(\"%d%%\", 75);", "return [\"%d\", \"%s%v\"];", "return {\"rate\": \"5%\", \"%t\": 1};", "return \"%!t(MISSING) %[1]d %%\";",
			"return \"a\\\\b 'q' \\\"dq\\\" $HOME `x`\";", "return \"line1\\nline2\\ttab\";", "return \"日本 é \" + Name;", "return /a%b+/;", "return Name + \"%\" + string(Count);"}
		fixed := i < len(fixedCli)
		if fixed {
			script = fixedCli[i]
		}
		switch {
		case fixed:
		case i%10 == 7:
			script = randText(r, r.Intn(30)) // arbitrary text
		case i%10 == 8:
			script = "while (true) { }"
		case i%10 == 9:
			script = "return Nested.k + string(Nothing) + Name;"
		}
		doc := jsonDoc(r)
		sf := filepath.Join(dir, fmt.Sprintf("s%d.in", i))
		jf := filepath.Join(dir, fmt.Sprintf("d%d.json", i))
		os.WriteFile(sf, []byte(script), 0o644)
		jb, _ := json.Marshal(doc)
		if i%13 == 12 {
			jb = []byte("{not json")
		}
		os.WriteFile(jf, jb, 0o644)
		noopt := r.Bool()
		timeout := (!fixed && i%10 == 8) || r.Chance(20)
		args := []string{"run", "-json", jf}
		if noopt {
			args = append(args, "-no-optimizer")
		}
		if timeout {
			args = append(args, "-timeout", "300ms")
		}
		args = append(args, sf)
		if !fixed && i%10 == 8 && !timeout {
			continue
		}
		out, code := runBin(args...)
		// what the library says
		want := ""
		var obj map[string]interface{}
		if jerr := json.Unmarshal(jb, &obj); jerr != nil {
			want = "Error parsing JSON"
		} else {
			e := evalfilter.New(script)
			e.AddFunction("rec", func(a []object.Object) object.Object { return &object.Void{} })
			if timeout {
				ctx, cancel := context.WithTimeout(context.Background(), 300*time.Millisecond)
				defer cancel()
				e.SetContext(ctx)
			}
			var perr error
			if noopt {
				perr = e.Prepare([]byte{evalfilter.NoOptimize})
			} else {
				perr = e.Prepare()
			}
			if perr != nil {
				want = "Error compiling:"
			} else {
				captureStart()
				ret, rerr := e.Execute(obj)
				captureStop()
				if rerr != nil {
					want = "Failed to run script: "
					if strings.Contains(rerr.Error(), "timeout") {
						want = "Failed to run script: timeout during execution"
					}
				} else {
					want = fmt.Sprintf("Script gave result type:%s value:%s - which is '%t'.", ret.Type(), ret.Inspect(), ret.True())
				}
			}
		}
		// the CLI has no `rec` function: scripts calling it fail there; skip those
		if strings.Contains(script, "rec(") {
			want = ""
		}
		if code != 0 || strings.Contains(out, "goroutine ") || strings.Contains(out, "panic:") {
			fmt.Printf("CLI: run exited %d or crashed on %s: %s\n", code, sf, truncate(out, 300))
			bad++
		} else if want != "" && !strings.Contains(out, want) {
			fmt.Printf("CLI: run %v\n  script: %q\n  json: %s\n  want line: %s\n  got: %s\n", args, truncate(script, 200), truncate(string(jb), 200), want, truncate(out, 300))
			bad++
		}
		for _, sub := range [][]string{{"lex", sf}, {"parse", sf}, {"bytecode", sf}, {"bytecode", "-no-optimizer", sf}} {
			o2, c2 := runBin(sub...)
			if c2 != 0 || strings.Contains(o2, "goroutine ") || strings.Contains(o2, "panic:") {
				fmt.Printf("CLI: %v exited %d or crashed: %s\n", sub, c2, truncate(o2, 300))
				bad++
			}
		}
	}
	fmt.Printf("%d invocations of run (+4 other sub-commands each), %d problems\n", n, bad)
	if bad > 0 {
		return 1
	}
	return 0
}

func init() {
	if len(os.Args) > 1 {
		switch os.Args[1] {
		case "deep":
			os.Exit(deepMain())
		case "wallclock":
			os.Exit(wallclockMain())
		case "cli":
			os.Exit(cliMain())
		}
	}
}
