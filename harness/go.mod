module verif/harness

go 1.21

require github.com/skx/evalfilter/v2 v2.0.0

replace github.com/skx/evalfilter/v2 => /repo
