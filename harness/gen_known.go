package main

// Streams for recorded (open) findings, and control-flow templates whose expected host-call trace is
// written down here independently of both the implementation and the model.

import (
	"fmt"
	"strings"
)

type traceCase struct {
	script string
	trace  string // expected text of the host calls of run 0, e.g. "<rec(1)><rec(2)>"
	result string // expected r0 ("" = not checked), e.g. "V:STRING:646f6e65"
}

func tr(calls ...string) string {
	var sb strings.Builder
	for _, c := range calls {
		sb.WriteString("<rec(" + c + ")>")
	}
	return sb.String()
}

// controlExpectations: construct x iterable shape / branch outcome, with the trace the language definition gives.
func controlExpectations() []traceCase {
	var out []traceCase
	type it struct {
		lit   string
		vals  []string // printed values in order
		index []string // printed indexes / keys in order
	}
	its := []it{
		{"[]", nil, nil}, {"[7]", []string{"7"}, []string{"0"}}, {"[1, 2, 3]", []string{"1", "2", "3"}, []string{"0", "1", "2"}},
		{"\"\"", nil, nil}, {"\"a\"", []string{"a"}, []string{"0"}}, {"\"héy\"", []string{"h", "é", "y"}, []string{"0", "1", "2"}},
		{"{}", nil, nil}, {"{\"k\": 1}", []string{"1"}, []string{"k"}}, {"{\"b\": 2, \"a\": 1, \"c\": 3}", []string{"1", "2", "3"}, []string{"a", "b", "c"}},
		{"(1..4)", []string{"1", "2", "3", "4"}, []string{"0", "1", "2", "3"}}, {"(5..5)", []string{"5"}, []string{"0"}},
		{"[[1, 2], \"s\", 2.5, true]", []string{"[1, 2]", "s", "2.5", "true"}, []string{"0", "1", "2", "3"}},
	}
	for _, x := range its {
		var a, b, nested []string
		for k, v := range x.vals {
			a = append(a, v)
			b = append(b, x.index[k]+","+v)
			for _, w := range x.vals {
				nested = append(nested, v+","+w)
			}
		}
		out = append(out,
			traceCase{"foreach v in " + x.lit + " { rec(v); } return \"done\";", tr(a...), "V:STRING:" + hexs("done")},
			traceCase{"foreach i, v in " + x.lit + " { rec(i, v); } return \"done\";", tr(b...), "V:STRING:" + hexs("done")},
			traceCase{"foreach v in " + x.lit + " { foreach w in " + x.lit + " { rec(v, w); } } return 1;", tr(nested...), "V:INTEGER:" + hexs("1")},
			traceCase{"function each(xs) { foreach x in xs { rec(x); } return 9; } return each(" + x.lit + ");", tr(a...), "V:INTEGER:" + hexs("9")},
		)
		if len(x.vals) >= 2 {
			out = append(out, traceCase{"foreach v in " + x.lit + " { rec(v); if (true) { return \"cut\"; } } return \"done\";", tr(x.vals[0]), "V:STRING:" + hexs("cut")})
		}
	}
	for _, c := range []struct {
		cond  string
		truth bool
	}{{"true", true}, {"false", false}, {"1", true}, {"0", false}, {"\"\"", false}, {"\"x\"", true}, {"[]", false}, {"[0]", true}, {"null", false}, {"1 < 2", true}, {"!true", false}, {"0.0", false}, {"2.5", true}} {
		pick := func(t, f string) string {
			if c.truth {
				return t
			}
			return f
		}
		out = append(out,
			traceCase{"if (" + c.cond + ") { rec(1); } else { rec(2); } rec(3); return 4;", tr(pick("1", "2"), "3"), "V:INTEGER:" + hexs("4")},
			traceCase{"if (" + c.cond + ") { rec(1); } rec(3);", pick(tr("1", "3"), tr("3")), "V:NULL:" + hexs("null")},
			traceCase{"if (false) { rec(0); } else if (" + c.cond + ") { rec(1); } else { rec(2); } return 1;", tr(pick("1", "2")), ""},
			traceCase{"x = " + c.cond + " ? \"t\" : \"f\"; rec(x); return x;", tr(pick("t", "f")), "V:STRING:" + hexs(pick("t", "f"))},
			traceCase{"n = 0; while (" + c.cond + ") { n = n + 1; rec(n); if (n == 3) { return \"cut\"; } } return n;", pick(tr("1", "2", "3"), ""), pick("V:STRING:"+hexs("cut"), "V:INTEGER:"+hexs("0"))},
			traceCase{"function f(a) { if (a) { return \"yes\"; } rec(\"no\"); return \"end\"; } return f(" + c.cond + ");", pick("", tr("no")), "V:STRING:" + hexs(pick("yes", "end"))},
		)
	}
	for _, s := range []struct {
		val  string
		want string
	}{{"0", "zero"}, {"1", "few"}, {"2", "few"}, {"7", "many"}, {"\"1\"", "many"}, {"1.0", "many"}} {
		out = append(out, traceCase{"switch (" + s.val + ") { case 0 { rec(\"zero\"); } case 1, 2 { rec(\"few\"); } default { rec(\"many\"); } } rec(\"after\"); return 1;", tr(s.want, "after"), ""})
		out = append(out, traceCase{"switch (" + s.val + ") { default { rec(\"many\"); } case 0 { rec(\"zero\"); } case 1, 2 { rec(\"few\"); } } rec(\"after\"); return 1;", tr(s.want, "after"), ""})
	}
	for _, s := range []struct {
		val  string
		want []string
	}{{"\"bob\"", []string{"1"}}, {"\"Alice\"", []string{"2"}}, {"\"Carol\"", nil}, {"\"alice\"", nil}} {
		out = append(out, traceCase{"switch (" + s.val + ") { case \"bob\" { rec(1); } case /^A/ { rec(2); } case \"Alice\" { rec(3); } } return 1;", tr(s.want...), ""})
	}
	// every expression of a case list is evaluated and tried, in order, repeated spellings included
	out = append(out,
		traceCase{"n = 0; function next() { n = n + 1; rec(n); return n; } switch (2) { case next(), next() { rec(\"hit\"); } default { rec(\"default\"); } } return n;", tr("1", "2", "hit"), "V:INTEGER:" + hexs("2")},
		traceCase{"n = 0; function next() { n = n + 1; rec(n); return n; } switch (99) { case next(), next(), next() { rec(\"hit\"); } } return n;", tr("1", "2", "3"), "V:INTEGER:" + hexs("3")},
		traceCase{"n = 0; function next() { n = n + 1; rec(n); return n; } switch (1) { case next(), next() { rec(\"hit\"); } case next() { rec(\"second\"); } } return n;", tr("1", "hit"), "V:INTEGER:" + hexs("1")},
		traceCase{"switch (3) { case 1, 1, 3, 3 { rec(\"a\"); } case 3 { rec(\"b\"); } default { rec(\"d\"); } } return 0;", tr("a"), "V:INTEGER:" + hexs("0")},
	)
	// a case matches first of all when it has the same type and text as the value - a regexp value and an identical
	// regexp case included, whether or not the pattern matches its own text
	out = append(out,
		traceCase{"p = /^a+$/; switch (p) { case /^a+$/ { rec(\"same\"); } default { rec(\"d\"); } } return 1;", tr("same"), "V:INTEGER:" + hexs("1")},
		traceCase{"p = /ab/; switch (p) { case /ab/ { rec(\"same\"); } default { rec(\"d\"); } } return 1;", tr("same"), "V:INTEGER:" + hexs("1")},
		traceCase{"p = /^a+$/; switch (p) { case /^b+$/ { rec(\"other\"); } case /^a+$/ { rec(\"same\"); } default { rec(\"d\"); } } return 1;", tr("same"), "V:INTEGER:" + hexs("1")},
		traceCase{"switch (\"aaa\") { case \"aaa\" { rec(\"lit\"); } case /^a+$/ { rec(\"re\"); } } return 1;", tr("lit"), "V:INTEGER:" + hexs("1")},
		traceCase{"switch (\"/^a+$/\") { case /^a+$/ { rec(\"re\"); } default { rec(\"d\"); } } return 1;", tr("d"), "V:INTEGER:" + hexs("1")},
	)
	// a switch that never tests its value (only default blocks, or none) does not evaluate it either, and leaves
	// nothing behind - also inside a loop
	out = append(out,
		traceCase{"function v() { rec(\"v\"); return 1; } switch (v()) { default { rec(\"d\"); } } rec(\"after\"); return 3;", tr("d", "after"), "V:INTEGER:" + hexs("3")},
		traceCase{"function v() { rec(\"v\"); return 1; } switch (v()) { } rec(\"after\"); return 3;", tr("after"), "V:INTEGER:" + hexs("3")},
		traceCase{"function v() { rec(\"v\"); return 1; } foreach i in [1, 2] { switch (v()) { default { rec(i); } } } return 3;", tr("1", "2"), "V:INTEGER:" + hexs("3")},
		traceCase{"function v() { rec(\"v\"); return 1; } foreach i in [1, 2] { switch (v()) { case 1 { rec(i); } default { rec(\"d\"); } } } return 3;", tr("v", "1", "v", "2"), "V:INTEGER:" + hexs("3")},
	)
	// function definitions wherever they stand - between statements, inside other functions, inside blocks and
	// loop bodies, in switch arms - do nothing at run time and drop nothing around them
	out = append(out,
		traceCase{"x = 5; rec(1); function outer() { rec(\"o\"); function inner() { rec(\"i\"); return 1; } return inner() + 1; } rec(2); y = outer(); rec(x, y); return x;", tr("1", "2", "o", "i", "5,2"), "V:INTEGER:" + hexs("5")},
		traceCase{"rec(1); function a() { function b() { function c() { rec(\"c\"); return 3; } return c(); } return b(); } rec(2); r = a(); rec(r); return r;", tr("1", "2", "c", "3"), "V:INTEGER:" + hexs("3")},
		traceCase{"n = 0; while (n < 2) { rec(n); function step(v) { return v + 1; } n = step(n); } rec(\"end\"); return n;", tr("0", "1", "end"), "V:INTEGER:" + hexs("2")},
		traceCase{"rec(1); if (false) { function never() { rec(\"never\"); return 7; } rec(\"dead\"); } rec(2); r = never(); rec(r); return r;", tr("1", "2", "never", "7"), "V:INTEGER:" + hexs("7")},
		traceCase{"foreach v in [1, 2] { rec(v); function twice(q) { return q * 2; } rec(twice(v)); } return 0;", tr("1", "2", "2", "4"), "V:INTEGER:" + hexs("0")},
		traceCase{"rec(1); switch (2) { case 1 { function one() { return 1; } rec(\"one\"); } case 2 { function two() { return 2; } rec(\"two\"); } default { function dflt() { return 0; } } } rec(one() + two() + dflt()); return 9;", tr("1", "two", "3"), "V:INTEGER:" + hexs("9")},
		traceCase{"x = 1; function f() { return 10; } x = x + 1; function g() { return 20; } x = x + 1; rec(x); r = f() + g(); return r + x;", tr("3"), "V:INTEGER:" + hexs("33")},
		traceCase{"rec(\"a\"); function outer() { function inner() { return 1; } rec(\"in-outer\"); return 2; } rec(\"b\"); return 4;", tr("a", "b"), "V:INTEGER:" + hexs("4")},
	)
	out = append(out,
		traceCase{"rec(1); return 2; rec(3);", tr("1"), "V:INTEGER:" + hexs("2")},
		traceCase{"rec(1); if (true) { return 2; } rec(3);", tr("1"), "V:INTEGER:" + hexs("2")},
		traceCase{"rec(1);", tr("1"), "V:NULL:" + hexs("null")},
		traceCase{"n = 0; for (n < 3) { n++; rec(n); } return n;", tr("1", "2", "3"), "V:INTEGER:" + hexs("3")},
		traceCase{"i = 0; while (i < 2) { j = 0; while (j < 2) { rec(i, j); j++; } i++; } return i + j;", tr("0,0", "0,1", "1,0", "1,1"), "V:INTEGER:" + hexs("4")},
		// long loops: the body runs once per iteration however many iterations (and calls) there are
		traceCase{"function id(p) { return p; } n = 0; while (n < 10050) { n = id(n) + 1; } return n;", "", "V:INTEGER:" + hexs("10050")},
		traceCase{"function id(p) { return p; } n = 0; foreach i in 1..10050 { n = id(i); } return n;", "", "V:INTEGER:" + hexs("10050")},
		traceCase{"n = 0; foreach i in 1..150 { foreach j in 1..100 { n = n + 1; } } return n;", "", "V:INTEGER:" + hexs("15000")},
	)
	return out
}

func genCtlExpect(stream string, seed uint64) []GenCase {
	r := NewRng(seed)
	var out []GenCase
	for i, t := range controlExpectations() {
		for _, opt := range []bool{true, false} {
			polls := defaultPolls
			if strings.Contains(t.script, "10050") || strings.Contains(t.script, "1..150") {
				polls = -1
			}
			c := Case{ID: fmt.Sprintf("%s-%d-%v", stream, i, opt), Script: t.script, Opt: opt, Fns: []HostFn{recFn()}, Tags: []string{"control-expectation"},
				Runs: []Run{{Obj: stdObject(r), Polls: polls}}}
			out = append(out, GenCase{Case: c, Stream: stream, NonTrivial: true, Role: "trace:" + hexs(t.trace) + ":" + t.result})
		}
	}
	return out
}

// ---- open findings ----

// KF-7: a statement that leaves a value on the stack inside a foreach body derails the iteration
func kf7Cases() []traceCase {
	var out []traceCase
	for _, stmt := range []string{"v;", "1;", "len(\"ab\");", "v + 1;", "[v];"} {
		out = append(out,
			traceCase{"foreach v in [1, 2, 3] { rec(v); " + stmt + " } return \"done\";", tr("1", "2", "3"), "V:STRING:" + hexs("done")},
			traceCase{"foreach i, v in \"ab\" { " + stmt + " rec(i, v); } return \"done\";", tr("0,a", "1,b"), "V:STRING:" + hexs("done")},
		)
	}
	return out
}

// KF-25: a value-less expression (assignment, compound assignment, if, while, foreach, switch, function, local)
// used where a value is consumed is accepted by Prepare and underflows when run
func kf25Scripts() []string {
	return []string{"x = (y = 1); return x;", "a = 1; b = 2 + (a += 1); return b;", "return [1, (z = 2)];", "x = 1 + (if (true) { 2; }); return x;",
		"y = 0; rec((y = 3)); return y;", "return (x = 1) ? 1 : 2;", "return {\"k\": (v = 1)};", "x = -(y = 2); return x;"}
}

// KF-26 (repaired): duplicate keys in a hash literal - which value won used to depend on Go's map iteration
// order; the scripts stay as a replicated regression stream (S-det-known), now compared with the model too
func kf26Scripts() []string {
	return []string{"return {\"a\": 1, \"a\": 2};", "h = {1: \"x\", 1: \"y\", 1: \"z\"}; return h;", "return keys({\"k\": 1, \"k\": 2, \"j\": 3});",
		"return {\"a\": {3: 4, 5: 6, 7: 8}, \"a\": {9: 1, 5: 6, 7: 8}, \"a\": 2};", "return {{1: 2, 3: 4}: 1, {3: 4, 1: 2}: 2};",
		"h = {\"k\": {\"b\": 1, \"a\": 2, \"c\": 3}, \"k\": {\"c\": 3, \"b\": 1, \"a\": 1}}; return h[\"k\"][\"a\"];"}
}

// KF-36 (repaired): pairs of a hash literal that PRINT alike (key and value) but are different code - the printed
// form of a `return` shows only the first token of its value - were compiled in map-iteration order: the first
// `return` reached decided the result.  The written order now breaks the tie.
func kf36Scripts() []string {
	return []string{"h = {\"k\": if (true) { return 1+2; }, \"k\": if (true) { return 1+3; }}; return 0;",
		"h = {\"k\": if (true) { return 1+3; }, \"k\": if (true) { return 1+2; }}; return 0;",
		"h = {if (true) { return 5*2; }: 1, if (true) { return 5*3; }: 1}; return 0;",
		"h = {\"k\": if (Count > 1000000) { return 1-1; }, \"k\": if (true) { return 2-1; }, \"k\": if (true) { return 3-1; }}; return 0;",
		"function f() { h = {\"a\": if (true) { return \"x\" + \"y\"; }, \"a\": if (true) { return \"x\" + \"z\"; }}; return h; } return f();",
		"h = {1: if (true) { return [1, 2][0]; }, 1: if (true) { return [3, 4][0]; }, 1: if (true) { return [5, 6][0]; }, 1: if (true) { return [7, 8][0]; }}; return 0;"}
}

func genCtlKnown(stream string, seed uint64) []GenCase {
	r := NewRng(seed)
	var out []GenCase
	for i, t := range kf7Cases() {
		c := Case{ID: fmt.Sprintf("%s-%d", stream, i), Script: t.script, Opt: i%2 == 0, Fns: []HostFn{recFn()}, Tags: []string{"known:KF-7"},
			Runs: []Run{{Obj: stdObject(r), Polls: defaultPolls}}}
		out = append(out, GenCase{Case: c, Stream: stream, NonTrivial: true, Role: "trace:" + hexs(t.trace) + ":" + t.result})
	}
	return out
}

func genWfKnown(stream string, seed uint64) []GenCase {
	r := NewRng(seed)
	var out []GenCase
	for i, s := range kf25Scripts() {
		c := Case{ID: fmt.Sprintf("%s-%d", stream, i), Script: s, Opt: i%2 == 0, Fns: []HostFn{recFn()}, Show: []string{"code", "wf"}, Tags: []string{"known:KF-25"},
			Runs: []Run{{Obj: stdObject(r), Polls: defaultPolls}}}
		out = append(out, GenCase{Case: c, Stream: stream, NonTrivial: true})
	}
	return out
}

func genDetKnown(stream string, seed uint64, replicas int) []GenCase {
	r := NewRng(seed)
	var out []GenCase
	id := 0
	for i, s := range kf26Scripts() {
		o := stdObject(r)
		for k := 0; k < replicas; k++ {
			c := Case{ID: fmt.Sprintf("%s-%d", stream, id), Script: s, Opt: i%2 == 0, Fns: []HostFn{recFn()}, Show: []string{"code", "dump"}, Tags: []string{"regress:KF-26"},
				Runs: []Run{{Obj: o, Polls: defaultPolls}, {Obj: o, Polls: defaultPolls}}}
			id++
			out = append(out, GenCase{Case: c, Stream: stream, NonTrivial: k == 0, Pair: fmt.Sprintf("detk-%d", i), Role: "replica", IgnoreKeys: map[string]bool{"d": true}})
		}
	}
	for i, s := range kf36Scripts() {
		o := stdObject(r)
		for k := 0; k < replicas; k++ {
			c := Case{ID: fmt.Sprintf("%s-%d", stream, id), Script: s, Opt: i%2 == 0, Fns: []HostFn{recFn()}, Show: []string{"code", "dump"}, Tags: []string{"regress:KF-36"},
				Runs: []Run{{Obj: o, Polls: defaultPolls}, {Obj: o, Polls: defaultPolls}}}
			id++
			out = append(out, GenCase{Case: c, Stream: stream, NonTrivial: k == 0, Pair: fmt.Sprintf("detk36-%d", i), Role: "replica", IgnoreKeys: map[string]bool{"d": true}})
		}
	}
	// KF-37 (repaired): with two functions over the size limit, the one named in Prepare's error followed map order
	{
		body := strings.Repeat("x = 1; ", 9400) // 7 bytes each: 65800 bytes of code
		s := "function zeta() { " + body + "} function alpha() { " + body + "} function mid() { " + body + "} return 1;"
		for k := 0; k < replicas; k++ {
			c := Case{ID: fmt.Sprintf("%s-%d", stream, id), Script: s, Opt: false, Show: []string{"errtext"}, Tags: []string{"regress:KF-37"},
				Runs: []Run{{Obj: stdObject(r), Polls: defaultPolls}}}
			id++
			out = append(out, GenCase{Case: c, Stream: stream, NonTrivial: k == 0, Pair: "detk37", Role: "replica", ModelFree: true})
		}
	}
	return out
}

func init() {
	predicates["kf7Script"] = func(v OracleViolation) bool {
		for _, t := range kf7Cases() {
			if t.script == v.Script {
				return true
			}
		}
		return false
	}
	// KF-25 is a class of scripts, decided structurally by the model (`Expr.vlo`): a value-less expression
	// (assignment, compound assignment, if, while, foreach, switch, function, local, postfix) in a position
	// whose value is consumed; only the underflow it causes is covered
	predicates["kf25Script"] = func(v OracleViolation) bool {
		return strings.Contains(v.Detail, "underflow") && strings.Contains(v.Detail, "value-less expression where a value is consumed")
	}
}

// ---- regression corpus: the reproducers of the repaired findings, with the result the language defines ----

type regressCase struct {
	prop, kf, script string
	mustFail         bool
	result           string // expected r0 when !mustFail
}

func regressCorpus() []regressCase {
	v := func(ty, txt string) string { return "V:" + ty + ":" + hexs(txt) }
	return []regressCase{
		{"C13", "KF-1", "foreach x in [1] { 3 += 1; } return 1;", true, ""},
		{"C13", "KF-1", "if (true) { foreach x in [1] { while (false) { \"s\" -= 2; } } }", true, ""},
		{"C03", "KF-2", "return (false ? 1 : 3) + 4;", false, v("INTEGER", "7")},
		{"C03", "KF-2", "x = (Missing ? 1 : 3); y = 4 + 5; return x + y;", false, v("INTEGER", "12")},
		{"C16", "KF-3", "return \"abc\"[3];", false, v("NULL", "null")},
		{"C16", "KF-3", "return [\"abc\"[2], \"abc\"[3], \"abc\"[4]];", false, v("ARRAY", "[c, null, null]")},
		{"C05", "KF-4", "return !(1 == 2);", false, v("BOOLEAN", "true")},
		{"C05", "KF-4", "x = (2 < 1); return [!x, !!x, !null, !0];", false, v("ARRAY", "[true, false, true, false]")},
		{"C01", "KF-5", "return 1 && \"x\";", false, v("BOOLEAN", "true")},
		{"C01", "KF-5", "return [0 || \"\", [] && 1, 2.5 || null];", false, v("ARRAY", "[false, false, true]")},
		{"C15", "KF-6", "x = 70000; y = x; x++; return [x, y, 70000];", false, v("ARRAY", "[70001, 70000, 70000]")},
		{"C15", "KF-14", "xs = [1, 2]; n = 0; foreach a in xs { foreach b in xs { n++; } } return n;", false, v("INTEGER", "4")},
		{"C20", "KF-11", "return OPTIMIZE;", false, v("NULL", "null")},
		{"C06", "KF-13", "function f(a) { a = 2; return a; } a = 1; f(5); return a;", false, v("INTEGER", "1")},
		{"C06", "KF-13", "function g() { local a; a = 9; return a; } a = 1; g(); return a;", false, v("INTEGER", "1")},
		{"C12", "KF-18", "a = true ? 1 + 2 : 3; return a;", false, v("INTEGER", "3")},
		{"C12", "KF-19", "a = 1; a += 1 + 2; return a;", false, v("INTEGER", "4")},
		{"C12", "KF-19", "a = 8; a /= 1 + 1; a *= 2 + 1; a -= 1 + 1; return a;", false, v("INTEGER", "10")},
		{"C13", "KF-20", "foreach x in [1] 7 y = x; }", true, ""},
		{"C13", "KF-21", "function 3() { return 1; }", true, ""},
		{"C13", "KF-21", "function f(1, \"a\") { return 1; }", true, ""},
		{"C13", "KF-21", "function f(a b) { return 1; }", true, ""},
		{"C13", "KF-21", "foreach 3 in [1] { }", true, ""},
		{"C14", "KF-22", "return 1;\x00 garbage(", true, ""},
		{"C17", "KF-24", "return [max(9, 10), min(9, 10), between(5, 1, 10), max(2, 10.5)];", false, v("ARRAY", "[10, 9, true, 10.5]")},
		{"C13", "KF-34", "switch ( 3 += 1 ) { default { return 1; } }", true, ""},
		{"C13", "KF-34", "function f() { switch (\"a\" -= 1) { } }", true, ""},
		{"C02", "KF-34", "switch ( 3 + 1 ) { default { return 1; } } return 2;", false, v("INTEGER", "1")},
	}
}

func genRegress(prop string, seed uint64) []GenCase {
	r := NewRng(seed)
	var out []GenCase
	n := 0
	for _, rc := range regressCorpus() {
		if rc.prop != prop {
			continue
		}
		for _, opt := range []bool{true, false} {
			c := Case{ID: fmt.Sprintf("S-regress-%d-%v", n, opt), Script: rc.script, Opt: opt, Fns: []HostFn{recFn()}, Tags: []string{"regress:" + rc.kf},
				Runs: []Run{{Obj: stdObject(r), Polls: defaultPolls}}}
			role := "trace::" + rc.result
			if rc.mustFail {
				role = "must-fail"
			}
			out = append(out, GenCase{Case: c, Stream: "S-regress", NonTrivial: true, Role: role})
		}
		n++
	}
	return out
}
