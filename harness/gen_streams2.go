package main

import (
	"fmt"
	"strings"
)

// ---------- S-prec (C12): documented precedence, as a SPEC-side table ----------

// documented levels (higher binds tighter); the harness' own copy of the language definition
var infixLevel = map[string]int{
	"..": 3, "=": 3, "+=": 3, "-=": 3, "*=": 3, "/=": 3,
	"&&": 4, "||": 4,
	"==": 5, "!=": 5,
	"<": 7, "<=": 7, ">": 7, ">=": 7, "~=": 7, "!~": 7, "in": 7,
	"+": 8, "-": 8,
	"*": 9, "/": 9,
	"**": 10,
	"%":  11,
}

const prefixLevel = 12

type ET struct {
	Kind    string // atom, infix, prefix, index, call, ternary
	Op      string
	A, B, C *ET
	Atom    string
}

func (e *ET) level() int {
	switch e.Kind {
	case "atom", "index", "call", "paren":
		return 15
	case "prefix":
		return prefixLevel
	case "infix":
		return infixLevel[e.Op]
	case "ternary":
		return 2
	}
	return 15
}

func opText(op string) string {
	if op == "in" {
		return " in "
	}
	return " " + op + " "
}

// printMin prints with only the parentheses the documented rules require.
func (e *ET) printMin() string {
	switch e.Kind {
	case "atom":
		return e.Atom
	case "prefix":
		// the operand of a prefix operator is parsed at PREFIX level: anything looser needs parentheses
		a := e.A.printMin()
		if e.A.level() < prefixLevel || (e.A.Kind == "prefix" && e.A.Op == "-" && e.Op == "-") {
			a = "(" + a + ")"
		}
		return e.Op + a
	case "index":
		a := e.A.printMin()
		if e.A.level() < 14 {
			a = "(" + a + ")"
		}
		return a + "[" + e.B.printMin() + "]"
	case "infix":
		l, r := e.A.printMin(), e.B.printMin()
		// left-associative: the left operand may be of the same level, the right must bind tighter
		if e.A.level() < e.level() {
			l = "(" + l + ")"
		}
		if e.B.level() <= e.level() {
			r = "(" + r + ")"
		}
		return l + opText(e.Op) + r
	case "ternary":
		c := e.A.printMin()
		if e.A.level() <= 2 {
			c = "(" + c + ")"
		}
		return c + " ? " + e.B.printMin() + " : " + e.C.printMin()
	}
	return "?"
}

// printFull parenthesises every sub-expression.
func (e *ET) printFull() string {
	switch e.Kind {
	case "atom":
		return e.Atom
	case "prefix":
		return "(" + e.Op + e.A.printFull() + ")"
	case "index":
		return "(" + e.A.printFull() + "[" + e.B.printFull() + "])"
	case "infix":
		return "(" + e.A.printFull() + opText(e.Op) + e.B.printFull() + ")"
	case "ternary":
		return "(" + e.A.printFull() + " ? " + e.B.printFull() + " : " + e.C.printFull() + ")"
	}
	return "?"
}

// printRedundant: minimal plus random redundant parentheses
func (e *ET) printRedundant(r *Rng) string {
	wrap := func(s string) string {
		if r.Chance(40) {
			return "(" + s + ")"
		}
		return s
	}
	switch e.Kind {
	case "atom":
		return wrap(e.Atom)
	case "prefix":
		a := e.A.printRedundant(r)
		if e.A.level() < prefixLevel || (e.A.Kind == "prefix") {
			a = "(" + a + ")"
		}
		return wrap(e.Op + a)
	case "index":
		a := e.A.printRedundant(r)
		if e.A.level() < 14 {
			a = "(" + a + ")"
		}
		return wrap(a + "[" + e.B.printRedundant(r) + "]")
	case "infix":
		l, rr := e.A.printRedundant(r), e.B.printRedundant(r)
		if e.A.level() < e.level() {
			l = "(" + l + ")"
		}
		if e.B.level() <= e.level() {
			rr = "(" + rr + ")"
		}
		return wrap(l + opText(e.Op) + rr)
	case "ternary":
		c := e.A.printRedundant(r)
		if e.A.level() <= 2 {
			c = "(" + c + ")"
		}
		return "(" + c + " ? " + e.B.printRedundant(r) + " : " + e.C.printRedundant(r) + ")"
	}
	return "?"
}

var precInfixOps = []string{"+", "-", "*", "/", "%", "**", "<", "<=", ">", ">=", "==", "!=", "&&", "||", "..", "in", "~=", "!~"}
var precAtoms = []string{"a", "b", "c", "d", "1", "2", "3", "7", "x"}

func randTree(r *Rng, d int) *ET {
	if d <= 0 || r.Chance(20) {
		return &ET{Kind: "atom", Atom: Pick(r, precAtoms)}
	}
	switch r.Intn(10) {
	case 0:
		return &ET{Kind: "prefix", Op: Pick(r, []string{"-", "!", "√"}), A: randTree(r, d-1)}
	case 1:
		return &ET{Kind: "index", A: randTree(r, d-1), B: randTree(r, d-1)}
	default:
		return &ET{Kind: "infix", Op: Pick(r, precInfixOps), A: randTree(r, d-1), B: randTree(r, d-1)}
	}
}

func precVars(c *Case) {
	c.AddVar("a", VInt(5))
	c.AddVar("b", VInt(3))
	c.AddVar("c", VInt(2))
	c.AddVar("d", VInt(7))
	c.AddVar("x", VInt(1))
}

func genPrec(stream string, seed uint64, nTrees int, triples bool) []GenCase {
	r := NewRng(seed)
	var out []GenCase
	id := 0
	add := func(script, pair, role string, tags ...string) {
		c := Case{ID: fmt.Sprintf("%s-%d", stream, id), Script: script, Opt: false, Show: []string{"ast"}, Tags: tags,
			Runs: []Run{{Obj: HV{Kind: "nil"}, Polls: defaultPolls}}}
		precVars(&c)
		id++
		out = append(out, GenCase{Case: c, Stream: stream, NonTrivial: true, Pair: pair, Role: role})
	}
	// all ordered pairs (and triples) of infix operators: a op1 b op2 c [op3 d]
	for _, o1 := range precInfixOps {
		for _, o2 := range precInfixOps {
			// the tree the documented rules give
			var t *ET
			A, B, C := &ET{Kind: "atom", Atom: "a"}, &ET{Kind: "atom", Atom: "b"}, &ET{Kind: "atom", Atom: "c"}
			if infixLevel[o2] > infixLevel[o1] {
				t = &ET{Kind: "infix", Op: o1, A: A, B: &ET{Kind: "infix", Op: o2, A: B, B: C}}
			} else {
				t = &ET{Kind: "infix", Op: o2, A: &ET{Kind: "infix", Op: o1, A: A, B: B}, B: C}
			}
			key := fmt.Sprintf("pair-%s-%s", o1, o2)
			add("return a"+opText(o1)+"b"+opText(o2)+"c;", key, "plain", "op-pair")
			add("return "+t.printFull()+";", key, "full", "op-pair")
			if triples {
				for _, o3 := range precInfixOps {
					add("return a"+opText(o1)+"b"+opText(o2)+"c"+opText(o3)+"d;", "", "", "op-triple")
				}
			}
		}
	}
	// prefix / infix / postfix combinations
	for _, p := range []string{"-", "!", "√"} {
		for _, o := range precInfixOps {
			key := fmt.Sprintf("pre-%s-%s", p, o)
			add("return "+p+"a"+opText(o)+"b;", key, "plain", "prefix-infix")
			add("return (("+p+"a)"+opText(o)+"b);", key, "full", "prefix-infix")
			key2 := fmt.Sprintf("pre2-%s-%s", p, o)
			add("return a"+opText(o)+p+"b;", key2, "plain", "infix-prefix")
			add("return (a"+opText(o)+"("+p+"b));", key2, "full", "infix-prefix")
		}
		add("return "+p+"xs[0];", "preidx-"+p, "plain", "prefix-index")
		add("return ("+p+"(xs[0]));", "preidx-"+p, "full", "prefix-index")
		add("return "+p+"f(1);", "", "", "prefix-call")
	}
	for _, o := range precInfixOps {
		add("return a"+opText(o)+"xs[1];", "idx-"+o, "plain", "infix-index")
		add("return (a"+opText(o)+"(xs[1]));", "idx-"+o, "full", "infix-index")
		add("x = a"+opText(o)+"b; return x;", "", "", "assign-infix")
		add("return Flag ? a"+opText(o)+"b : c;", "tern-"+o, "plain", "ternary-arm")
		add("return (Flag ? (a"+opText(o)+"b) : c);", "tern-"+o, "full", "ternary-arm")
		add("return a"+opText(o)+"b ? 1 : 2;", "terc-"+o, "plain", "ternary-cond")
		add("return ((a"+opText(o)+"b) ? 1 : 2);", "terc-"+o, "full", "ternary-cond")
	}
	// the ternary binds looser than everything in all three positions, whatever an operand starts with:
	// condition, true arm and else arm beginning with an atom, a prefix operator, a parenthesis, an array
	// literal, an index or a call, followed by every binary operator
	for si, st := range []string{"a", "-a", "!a", "√a", "(a)", "[a, b][0]", "xs[0]", "f(a)", "-(a)", "(a)[0]", "-xs[1]"} {
		for _, o := range precInfixOps {
			k := fmt.Sprintf("tern3-%d-%s", si, o)
			add("return "+st+opText(o)+"b ? 1 : 2;", k+"-c", "plain", "ternary-cond-start")
			add("return ((("+st+")"+opText(o)+"b) ? 1 : 2);", k+"-c", "full", "ternary-cond-start")
			add("return Flag ? "+st+opText(o)+"b : c;", k+"-t", "plain", "ternary-true-start")
			add("return (Flag ? (("+st+")"+opText(o)+"b) : c);", k+"-t", "full", "ternary-true-start")
			add("return Flag ? c : "+st+opText(o)+"b;", k+"-e", "plain", "ternary-else-start")
			add("return (Flag ? c : (("+st+")"+opText(o)+"b));", k+"-e", "full", "ternary-else-start")
			add("return !Flag ? c : "+st+opText(o)+"b;", k+"-e2", "plain", "ternary-else-start")
			add("return ((!Flag) ? c : (("+st+")"+opText(o)+"b));", k+"-e2", "full", "ternary-else-start")
		}
	}
	// the dot binds like an index: `h.k[0]` is `(h.k)[0]`, `h.k.j`, `-h.n`, `h.k[0] + 1`, `f(h.k)[1]`
	for k, p := range [][2]string{{"h.k[0]", "((h.k)[0])"}, {"h.k[1] + 1", "(((h.k)[1]) + 1)"}, {"h.m.j", "((h.m).j)"}, {"h.m.j[0]", "(((h.m).j)[0])"}, {"-h.n", "(-(h.n))"},
		{"h.n * 2", "((h.n) * 2)"}, {"2 * h.n", "(2 * (h.n))"}, {"h.k[0] == 7", "(((h.k)[0]) == 7)"}, {"!h.n", "(!(h.n))"}, {"h.n ** 2", "((h.n) ** 2)"}} {
		add("return "+p[0]+";", fmt.Sprintf("dot-%d", k), "plain", "dot-index")
		add("return "+p[1]+";", fmt.Sprintf("dot-%d", k), "full", "dot-index")
	}
	for _, s := range []string{"x++;", "x--;", "x = 1; x++; return x;", "a += b * c; return a;", "a -= b - c; return a;", "a *= b + c; return a;", "a /= c + 1; return a;",
		"return a ? b ? 1 : 2 : 3;", "return a ? 1 : b ? 2 : 3;", "return (a ? 1 : 2) ? 3 : 4;", "return a ? (b ? 1 : 2) : 3;", "return f(a ? 1 : 2);",
		"return a ? {\"k\": b ? 1 : 2} : 3;", "return a ? [b ? 1 : 2] : 3;", "return a ? f(b ? 1 : 2) : 3;", "return a ? 1 : {\"k\": b ? 1 : 2};", "return a ? {b ? 1 : 2: 3} : 4;", "return a ? xs[b ? 0 : 1] : 3;",
		"return a ? len(keys({\"k\": b ? \"x\" : \"y\"})) : 0;", "return {\"k\": a ? 1 : 2};", "return [a ? 1 : 2, b ? 3 : 4];", "return {\"k\": a ? 1 : 2, \"j\": b ? 3 : 4};", "x = {\"k\": a ? 1 : 2}; return b ? x : 0;",
		"return a.b;", "return a.b.c;", "return h.k + 1;", "return -a ** 2;", "return 2 ** 3 ** 2;", "return 2 ** -1;", "return a - -b;", "return !a == b;", "return !(a == b);",
		"return a..b + 1;", "return (a..b)[0];", "return [1,2][0] + 1;", "return f(1)(2);", "return f(1)[2];", "return a in [1] == true;"} {
		add(s, "", "", "special")
	}
	// random trees in three parenthesisations: same AST and same result
	for i := 0; i < nTrees; i++ {
		t := randTree(r, 2+r.Intn(3))
		key := fmt.Sprintf("tree-%d", i)
		add("return "+t.printMin()+";", key, "min", "tree")
		add("return "+t.printFull()+";", key, "full", "tree")
		add("return "+t.printRedundant(r)+";", key, "redundant", "tree")
	}
	for i := range out {
		out[i].Case.AddVar("xs", VArr(VInt(4), VInt(9)))
		out[i].Case.AddVar("h", Val{Kind: "hash", Keys: []Val{VStr("k"), VStr("m"), VStr("n")},
			Vals: []Val{VArr(VInt(7), VInt(8)), {Kind: "hash", Keys: []Val{VStr("j")}, Vals: []Val{VArr(VInt(5))}}, VInt(3)}})
	}
	return out
}

// ---------- S-invalid (C13) ----------

var invalidFragments = []string{
	"\"unterminated", "'unterminated", "1 +", "* 2", "1 + * 2", "(1 + 2", "1 + 2)", "[1, 2", "{\"a\": 1", "{\"a\" 1}", "{1: }", "f(1, 2", "f(1,, 2)",
	"3 = 4", "f() = 1", "a[0] = 1", "\"s\" += 1", "3 += 1", "f(1) -= 2", "a ? b ? 1 : 2 : 3", "a ? 1", "a ? : 2", "a ? 1 : ",
	"#", "1 @ 2", "a & b", "a | b", "~a", "x = ", "if (a) { 1 ", "if a { 1 }", "if (a) 1", "if (a { 1 }", "if () { 1 }",
	"while (a) { ", "while a { }", "for (a) 1", "foreach in xs { }", "foreach x xs { }", "foreach x in { }", "foreach x, in xs { }", "foreach x in xs { ", "foreach x in xs 7 y = x; }",
	"switch (a) { case 1 { } ", "switch (a) { 1 { } }", "switch a { }", "switch (a) { case { } }", "switch (a) { default { } default { } }", "switch (a) { case 1 2 { } }",
	"function () { }", "function g( { }", "function g(a b) { }", "function g(a, ) { }", "function g(1) { }", "function g(a) ", "function g(a) { return 1; ", "function g(a, #) { }",
	"return 1", "return", "return ;", "1 2 +;", "a..", "..b", "a.", "x = = 1", "else { 1 }", "} ", "]", ")", "case 1 { }", "a[", "a[]", "a[1", "/abc", "x ~= /abc", "/a/z",
	"9223372036854775808", "99999999999999999999", "1.", "x = (y = ", "√", "!", "-", "1 ** ", "a in", "in a", "in",
}

var validContexts = []struct{ name, pre, post string }{
	{"top", "", ""},
	{"if-body", "if (true) { ", " }"},
	{"else-body", "if (false) { x = 1; } else { ", " }"},
	{"else-if-body", "if (false) { x = 1; } else if (true) { ", " }"},
	{"while-body", "while (false) { ", " }"},
	{"foreach-body", "foreach q in [1] { ", " }"},
	{"function-body", "function ff(p) { ", " }"},
	{"switch-case", "switch (1) { case 1 { ", " } }"},
	{"switch-default", "switch (1) { default { ", " } }"},
	{"after-valid", "x = 1; y = 2; ", ""},
	{"before-valid", "", " z = 3; return z;"},
}

var exprContexts = []struct{ name, pre, post string }{
	{"ternary-true-arm", "x = true ? ", " : 2;"},
	{"ternary-false-arm", "x = true ? 1 : ", ";"},
	{"call-arg", "print(1, ", ");"},
	{"array-element", "x = [1, ", ", 3];"},
	{"hash-value", "x = {\"k\": ", "};"},
	{"hash-key", "x = {", ": 1};"},
	{"index", "x = [1,2][", "];"},
	{"condition", "if (", ") { x = 1; }"},
	{"grouped", "x = (", ");"},
	{"return-value", "return ", ";"},
	{"case-expr", "switch (1) { case ", " { x = 1; } }"},
	{"foreach-iterable", "foreach q in ", " { x = q; }"},
	{"infix-right", "x = 1 + ", ";"},
	{"prefix-operand", "x = -", ";"},
	{"infix-left", "x = ", " + 1;"},
	{"compound-rhs", "x = 1; x += ", ";"},
	{"ternary-condition", "x = ", " ? 1 : 2;"},
	{"switch-value", "switch (", ") { case 1 { x = 1; } }"},
	{"switch-value-default-only", "switch (", ") { default { x = 1; } }"},
	{"switch-value-no-cases", "switch (", ") { }"},
	{"case-second-expr", "switch (1) { case 1, ", " { x = 1; } }"},
	{"while-condition", "while (", ") { x = 1; }"},
	{"condition-empty-block", "if (", ") { }"},
	{"condition-empty-blocks", "if (", ") { } else { }"},
	{"condition-empty-then", "if (", ") { } else { x = 1; }"},
	{"while-condition-empty-block", "while (", ") { }"},
	{"foreach-iterable-empty-block", "foreach q in ", " { }"},
	{"case-expr-empty-block", "switch (1) { case ", " { } }"},
	{"hash-key-in-call", "x = len(keys({", ": 1}));"},
	{"hash-value-in-ternary-arm", "x = true ? {\"k\": ", "} : 2;"},
	{"array-in-ternary-arm", "x = true ? [1, ", "] : 2;"},
	{"argument-in-else-arm", "x = true ? 1 : between(1, ", ", 3);"},
	{"else-if-condition", "if (false) { x = 1; } else if (", ") { x = 2; }"},
	{"index-base", "x = (", ")[0];"},
	{"call-first-arg", "print(", ", 2);"},
	{"nested-call", "x = len(string(", "));"},
	{"range-end", "foreach q in 1..", " { x = q; }"},
	{"assign-in-function", "function ff(p) { return p + ", "; }"},
}

var invalidExprFragments = []string{"\"unterminated", "1 +", "* 2", "(1 + 2", "[1, 2", "{\"a\": 1", "f(1, 2", "3 = 4", "a ? b ? 1 : 2 : 3", "#", "1 @ 2", "a & b", "~a",
	"", "a[", "a ? 1", "/abc", "9223372036854775808", "√", "a..", "function () { }", "if (a) { 1 ", "foreach x in xs 7 y = x; }", "3 += 1", "\"s\" -= 2"}

func genInvalid(stream string, seed uint64, nTrunc int, depthMax int) []GenCase {
	r := NewRng(seed)
	var out []GenCase
	id := 0
	add := func(script string, mustFail bool, tags ...string) {
		c := Case{ID: fmt.Sprintf("%s-%d", stream, id), Script: script, Opt: id%2 == 0, Tags: tags, Show: []string{"tokens"}}
		id++
		role := ""
		if mustFail {
			role = "must-fail"
		}
		out = append(out, GenCase{Case: c, Stream: stream, NonTrivial: true, Pair: "", Role: role})
	}
	wrap := func(frag string, depth int, rr *Rng) (string, string) {
		s := frag
		names := ""
		for d := 0; d < depth; d++ {
			ctx := Pick(rr, validContexts)
			for ctx.name == "before-valid" {
				ctx = Pick(rr, validContexts)
			}
			s = ctx.pre + s + ctx.post
			names += ctx.name + "/"
		}
		return s, names
	}
	for _, f := range invalidFragments {
		for _, ctx := range validContexts {
			if ctx.name == "before-valid" {
				continue // what follows could complete the fragment
			}
			add(ctx.pre+f+ctx.post, true, "frag×ctx:"+ctx.name)
		}
		for d := 2; d <= depthMax; d++ {
			s, names := wrap(f, d, r)
			add(s, true, "depth:"+fmt.Sprint(d), names)
		}
	}
	for _, f := range invalidExprFragments {
		for _, ctx := range exprContexts {
			if f == "" && ctx.name == "nested-call" {
				continue // `string()` is a well-formed call
			}
			s := ctx.pre + f + ctx.post
			add(s, true, "exprfrag×ctx:"+ctx.name)
			for d := 1; d <= depthMax; d++ {
				s2, _ := wrap(s, d, r)
				add(s2, true, "exprfrag-depth:"+fmt.Sprint(d))
			}
		}
	}
	// an illegal character is illegal wherever it stands: as the very last rune, the very first, right after a
	// string, a number, a comment's newline
	for _, ch := range []string{"\x00", "#", "@", "&", "|", "~", "`", "\v", "\f", "\u00a0", "\u0085", "\u2003", "\u2028", "\u3000", "\ufeff", "\u200b"} {
		for _, sc := range []string{"return 1;" + ch, ch + "return 1;", "return \"s\"" + ch + ";", "return 1" + ch + ";", "return 1; // c\n" + ch, "return 1;\n" + ch + "\n", "x = 1;" + ch + " return x;",
			"if (true) { return 1; }" + ch, "function f() { return 1; }" + ch, "return 1; " + ch + " "} {
			add(sc, true, "illegal-character-position")
		}
	}
	// `local` outside a function, at any depth of non-function contexts
	for _, ctx := range validContexts {
		if ctx.name == "function-body" || ctx.name == "before-valid" {
			continue
		}
		add(ctx.pre+"local zz;"+ctx.post, true, "local-outside-function")
		for _, ctx2 := range validContexts {
			if ctx2.name == "function-body" || ctx2.name == "before-valid" {
				continue
			}
			add(ctx2.pre+ctx.pre+"local zz;"+ctx.post+ctx2.post, true, "local-outside-function")
		}
	}
	// ... and the parser must not stay "inside a function" (or "inside a ternary") once one is over: the
	// same after complete function definitions and ternaries, at top level and inside later blocks
	for _, before := range []string{"function g1() { return 1; } ", "function g1(p) { local q; q = p; return q; } function g2() { } ", "x = true ? 1 : 2; ",
		"function g1() { x = true ? 1 : 2; return x; } ", "if (true) { function g3() { return 1; } } "} {
		for _, ctx := range validContexts {
			if ctx.name == "function-body" || ctx.name == "before-valid" {
				continue
			}
			add(before+ctx.pre+"local zz;"+ctx.post, true, "local-after-function")
			add(before+ctx.pre+"y = a ? b ? 1 : 2 : 3;"+ctx.post, true, "nested-ternary-after-ternary")
			add(before+ctx.pre+"y = a ? 1 : 2;"+ctx.post, false, "valid-context")
		}
	}
	add("function ff(p) { local zz; zz = 1; return zz; } return ff(1);", false, "valid-context")
	// the valid counterparts of the contexts must be accepted (the oracle is not trivially "reject everything")
	for _, ctx := range validContexts {
		add(ctx.pre+"x = 1;"+ctx.post, false, "valid-context")
	}
	for _, ctx := range exprContexts {
		if ctx.name == "hash-key" {
			add(ctx.pre+"\"k\""+ctx.post, false, "valid-context")
		} else {
			add(ctx.pre+"7"+ctx.post, false, "valid-context")
		}
	}
	// every token-boundary truncation of valid programs that leaves a bracket open
	for i := 0; i < nTrunc; i++ {
		g := newG(r.Fork())
		script := g.program(g.r.Intn(2), 2+g.r.Intn(3), 2)
		toks := splitTokensText(script)
		depth := 0
		acc := ""
		for _, t := range toks {
			acc += t
			switch strings.TrimSpace(t) {
			case "(", "[", "{":
				depth++
			case ")", "]", "}":
				depth--
			}
			if depth > 0 && r.Chance(25) {
				add(acc, true, "truncation-open-bracket")
			}
		}
		add(script, false, "random-program")
	}
	return out
}

// splitTokensText splits generated (well-formed, ASCII-punctuated) source at token boundaries, keeping
// the text; string literals are kept whole.
func splitTokensText(s string) []string {
	var out []string
	i := 0
	n := len(s)
	for i < n {
		j := i
		switch {
		case s[i] == '"' || s[i] == '\'':
			q := s[i]
			j = i + 1
			for j < n && s[j] != q {
				if s[j] == '\\' {
					j++
				}
				j++
			}
			j++
		case s[i] == '/' && i+1 < n && s[i+1] != ' ' && s[i+1] != '=' && s[i+1] != '/':
			// a regexp literal of the generator (division is always written with spaces)
			j = i + 1
			for j < n && s[j] != '/' {
				if s[j] == '\\' {
					j++
				}
				j++
			}
			j++
			for j < n && (s[j] == 'i' || s[j] == 'm') {
				j++
			}
		case s[i] == ' ' || s[i] == '\n' || s[i] == '\t':
			for j < n && (s[j] == ' ' || s[j] == '\n' || s[j] == '\t') {
				j++
			}
		case isWordByte(s[i]):
			for j < n && (isWordByte(s[j]) || s[j] >= 0x80) {
				j++
			}
		case s[i] >= 0x80:
			for j < n && s[j] >= 0x80 {
				j++
			}
		default:
			j = i + 1
			if i+1 < n {
				two := s[i : i+2]
				for _, op := range []string{"==", "!=", "<=", ">=", "&&", "||", "++", "--", "+=", "-=", "*=", "/=", "**", "..", "~=", "!~"} {
					if two == op {
						j = i + 2
					}
				}
			}
		}
		if j > n {
			j = n
		}
		out = append(out, s[i:j])
		i = j
	}
	return out
}

func isWordByte(b byte) bool {
	return b == '_' || b == '$' || (b >= '0' && b <= '9') || (b >= 'a' && b <= 'z') || (b >= 'A' && b <= 'Z') || b == '.'
}

// ---------- S-lex (C14) ----------

func escapeLiteral(r *Rng, s string, q rune) string {
	var sb strings.Builder
	for _, ch := range s {
		switch {
		case ch == q:
			sb.WriteString("\\" + string(ch))
		case ch == '\\':
			sb.WriteString("\\\\")
		case ch == '\n' && r.Bool():
			sb.WriteString("\\n")
		case ch == '\t' && r.Bool():
			sb.WriteString("\\t")
		case ch == '\r' && r.Chance(60):
			sb.WriteString("\\r")
		case ch == '\r' && r.Bool():
			sb.WriteString("\\\r") // backslash + raw carriage return: an "other" escaped character
		case ch == '"' && q == '\'' && r.Bool():
			sb.WriteString("\\\"")
		case r.Chance(5) && ch != 'n' && ch != 'r' && ch != 't' && ch != '\n' && ch != 0:
			sb.WriteString("\\" + string(ch)) // any other escaped character is taken literally
		default:
			sb.WriteRune(ch)
		}
		if r.Chance(3) {
			sb.WriteString("\\\n") // backslash-newline continuation
		}
	}
	return sb.String()
}

var runePool = []rune("abcXYZ019 _-+*/%()[]{}<>=!~?:;,.'\"\\\n\t\réüßñЖжΩω日本語한🙂√$#@&|^`")

func randText(r *Rng, n int) string {
	var sb strings.Builder
	for i := 0; i < n; i++ {
		sb.WriteRune(Pick(r, runePool))
	}
	return sb.String()
}

func genLex(stream string, seed uint64, n int) []GenCase {
	r := NewRng(seed)
	var out []GenCase
	id := 0
	add := func(script string, pair, role string, show []string, tags ...string) {
		c := Case{ID: fmt.Sprintf("%s-%d", stream, id), Script: script, Opt: true, Show: show, Tags: tags,
			Runs: []Run{{Obj: HV{Kind: "nil"}, Polls: defaultPolls}}}
		id++
		out = append(out, GenCase{Case: c, Stream: stream, NonTrivial: true, Pair: pair, Role: role})
	}
	// string literals: the value returned must be exactly the intended text
	for i := 0; i < n; i++ {
		txt := randText(r, r.Intn(12))
		q := '"'
		if r.Bool() {
			q = '\''
		}
		lit := string(q) + escapeLiteral(r, txt, q) + string(q)
		add("return "+lit+";", fmt.Sprintf("str-%d", i), "expect:"+hexs(txt), []string{"tokens"}, "string-literal")
	}
	// every ASCII character (and a few others) after a backslash, followed by letters that would
	// themselves be escapes if the backslash were applied to the wrong character
	for _, q := range []rune{'"', '\''} {
		others := []rune{0x80, 0xa0, 0xe9, 0x2028, 0xfeff, 0x1f642}
		for ch := rune(1); ch < 128+rune(len(others)); ch++ {
			c := ch
			if ch >= 128 {
				c = others[ch-128]
			}
			var want string
			switch c {
			case 'n':
				want = "\n"
			case 'r':
				want = "\r"
			case 't':
				want = "\t"
			case '\n':
				want = "" // continuation
			default:
				want = string(c)
			}
			for _, tail := range []string{"n", "t", "\\n", "x"} {
				wt := map[string]string{"n": "n", "t": "t", "\\n": "\n", "x": "x"}[tail]
				lit := string(q) + "a\\" + string(c) + tail + "b" + string(q)
				add("return "+lit+";", fmt.Sprintf("esc-%d-%d-%s", q, c, hexs(tail)), "expect:"+hexs("a"+want+wt+"b"), []string{"tokens"}, "escaped-char")
			}
		}
	}
	// regexp literals: pattern + flags reach the constant pool
	for i := 0; i < n/2; i++ {
		body := Pick(r, []string{"abc", "a\\/b", "[0-9]+", "^x$", "a.c", "\\.", "h(e|a)llo", "é+", "a\\\\b", "\\d", "x y"})
		flags := Pick(r, []string{"", "i", "m", "im", "mi", "ii", "imi"})
		add("return \"subject\" ~= /"+body+"/"+flags+";", "", "", []string{"tokens", "code"}, "regexp-literal")
	}
	// numbers
	for _, num := range []string{"0", "00", "007", "10", "65534", "65535", "65536", "9223372036854775807", "0.5", "00.50", "3.14159", "1.0", "100.001", "0.000001",
		"123456789.125", "1.7976931348623157", "0.1", "0.2", "0.30000000000000004", "4.35", "1234567890123456789.0", "0.000000000000000000001"} {
		add("return "+num+";", "", "", []string{"tokens", "ast"}, "number-literal")
		add("x = "+num+"; return x + 0;", "", "", nil, "number-literal")
	}
	// integer literals are decimal whatever they look like: leading zeros, digits 8 and 9 after a zero
	for _, p := range [][2]string{{"0", "0"}, {"00", "0"}, {"007", "7"}, {"010", "10"}, {"08", "8"}, {"09", "9"}, {"0755", "755"}, {"0777", "777"},
		{"012345", "12345"}, {"0019", "19"}, {"100", "100"}, {"000000000000000000001", "1"}, {"0100", "100"}, {"077", "77"}, {"0089", "89"}} {
		add("return "+p[0]+";", "int-"+p[0], "expectint:"+p[1], []string{"tokens", "ast"}, "number-literal", "leading-zero")
		add("x = "+p[0]+"; return x + 0;", "int2-"+p[0], "expectint:"+p[1], nil, "number-literal", "leading-zero")
	}
	for i := 0; i < n/8; i++ {
		v := r.Intn(100000)
		lit := strings.Repeat("0", 1+r.Intn(3)) + fmt.Sprint(v)
		add("return "+lit+";", fmt.Sprintf("intz-%d", i), "expectint:"+fmt.Sprint(v), []string{"tokens"}, "number-literal", "leading-zero")
	}
	// a regexp literal is a regexp literal whatever its pattern begins with (characters that, after a `/`, could
	// be taken for an operator or a comment), in every regexp position
	for k, p := range [][2]string{{"=b", "a=b"}, {"==", "a==b"}, {"=", "="}, {"-b", "a-b"}, {"\\\\+", "+"}, {"!x", "!x"}, {"<a", "<a"}, {">", ">"}, {" x", "a x"}, {"\\/", "a/b"}, {"(=)", "=="},
		{"=.*=", "=x="}, {"\\\\*", "*"}, {"&", "&"}, {"|a", "a"}, {"~", "~"}, {"%", "%"}} {
		subj := fmt.Sprintf("%q", p[1])
		for j, tmpl := range []string{"return %s ~= /%s/;", "return !(%s !~ /%s/);", "return match(%s, /%s/);", "switch (%s) { case /%s/ { return true; } } return false;", "x = [1, /%[2]s/]; return %[1]s ~= x[1];",
			"return (%s ~= /%s/i) && true;"} {
			add(fmt.Sprintf(tmpl, subj, p[0]), fmt.Sprintf("refirst-%d-%d", k, j), "expecttrue", []string{"tokens"}, "regexp-first-char")
		}
	}
	// a comment runs to the NEWLINE: a carriage return, a form feed, a tab, quotes or slashes inside it end nothing
	for k, p := range [][2]string{{"a = 1; // was:\ra = 2;\nreturn a;", "1"}, {"a = 1; // x\r\na = a + 1; // y\r return 9;\nreturn a;", "2"}, {"a = 1; // \"\na = 3;\nreturn a;", "3"},
		{"a = 1; // /re/ a = 2;\nreturn a;", "1"}, {"a = 4; //\fa = 5;\nreturn a;", "4"}, {"a = 1; // c1 // c2 a = 2;\nreturn a; // end", "1"}, {"return 7; //\r", "7"}, {"return 8 // c\r\n;", "8"}} {
		add(p[0], fmt.Sprintf("comment-end-%d", k), "expectint:"+p[1], []string{"tokens"}, "comment-extent")
	}
	// a literal keeps its own type whatever other literal of the same spelling stands in the script
	for k, p := range [][3]string{{"3.5", "\"3.5\"", "floatstring"}, {"\"3.5\"", "3.5", "stringfloat"}, {"70000", "\"70000\"", "integerstring"}, {"\"70000\"", "70000", "stringinteger"},
		{"/steve/", "\"steve\"", "regexpstring"}, {"\"steve\"", "/steve/", "stringregexp"}, {"70000", "70000.0", "integerfloat"}, {"70000.0", "70000", "floatinteger"},
		{"\"true\"", "true", "stringboolean"}, {"1.0", "\"1\"", "floatstring"}, {"\"1\"", "1.0", "stringfloat"}} {
		add("a = "+p[0]+"; b = "+p[1]+"; return type(a) + type(b);", fmt.Sprintf("sametext-%d", k), "expect:"+hexs(p[2]), nil, "same-spelling-different-type")
		add("function f() { return "+p[1]+"; } a = "+p[0]+"; return type(a) + type(f());", fmt.Sprintf("sametext-fn-%d", k), "expect:"+hexs(p[2]), nil, "same-spelling-different-type")
	}
	// things that look like numbers in other notations are not number literals
	for _, s := range []string{"0x10", "0b11", "0o17", "1_000", "1e3", "0x", "1.", ".5", "1..2", "1.2.3", "0.5.", "00.5", "1__0", "0_1"} {
		add("return "+s+";", "", "", []string{"tokens"}, "number-lookalike")
	}
	for i := 0; i < n/4; i++ {
		num := fmt.Sprintf("%d.%0*d", r.Intn(100000), 1+r.Intn(12), r.Intn(1000000))
		add("return "+num+";", "", "", []string{"tokens", "ast"}, "number-literal")
	}
	// division vs regexp after every kind of token
	for _, pre := range []string{"a", "1", "1.5", "(a)", "xs[0]", "\"s\"", "true", "x++", "}", "a +", "return", "(", "[", ",", "!", "=", "==", "a ~=", "a in", "f(1)", "/x/"} {
		add("a = 6; xs = [6]; x = 1; y = "+pre+" / 2 / 3;", "", "", []string{"tokens"}, "slash-after")
		add("a = 6; "+pre+" /re/ ;", "", "", []string{"tokens"}, "slash-after")
	}
	// layouts: the same token list under different separators
	seps := []string{" ", "\n", "\t", "  \n  ", " // c\n", "\n// a comment with \"quotes\" and /slashes/\n", "\r\n", " //\n"}
	for i := 0; i < n; i++ {
		g := newG(r.Fork())
		script := g.program(g.r.Intn(2), 1+g.r.Intn(3), 2)
		toks := splitTokensText(script)
		var a, b strings.Builder
		for _, t := range toks {
			if strings.TrimSpace(t) == "" {
				a.WriteString(" ")
				b.WriteString(Pick(r, seps))
				continue
			}
			a.WriteString(t)
			b.WriteString(t)
			if r.Chance(30) && !strings.HasSuffix(t, "/") {
				b.WriteString(Pick(r, seps))
			}
		}
		key := fmt.Sprintf("layout-%d", i)
		add(a.String(), key, "plain", []string{"tokens"}, "layout")
		add(b.String()+" // trailing comment", key, "relaid", []string{"tokens"}, "layout")
	}
	// the end of the input is a separator like any other: a script means the same with and without a final newline,
	// whatever token it ends in (two-character operators, decimals, postfix operators, comments without a newline)
	for k, x := range []string{"a = 1; a++", "a = 1; a--", "x = 1.5", "x = 10", "x = 1 <= 2", "x = a == b", "x = 2 ** 2", "x = a && b", "x = a || b", "x = a != b", "x = 1; x += 1", "x = 1..3",
		"x = \"s\"", "x = 's'", "x = /re/", "x = /re/i", "x = 1 // c", "x = 1 //", "if (a) { x = 1 }", "function f() { return 1 } x = f()", "x = [1, 2]", "x = {\"k\": 1}", "x = a ? 1 : 2",
		"x = a >= 1", "x = !a", "x = -1", "x = a.b", "x = a !~ /b/", "x = a ~= /b/", "return 7", "x = 70000", "x = a[0]"} {
		key := fmt.Sprintf("eof-%d", k)
		add(x, key, "plain", []string{"tokens"}, "end-of-input")
		add(x+"\n", key, "relaid", []string{"tokens"}, "end-of-input")
		add(x+" ", key, "relaid", []string{"tokens"}, "end-of-input")
		add(x+";\n", "", "", []string{"tokens"}, "end-of-input")
	}
	// termination / arbitrary input
	for i := 0; i < n; i++ {
		add(randText(r, r.Intn(40)), "", "", []string{"tokens"}, "token-soup")
	}
	return out
}

// ---------- S-fuzz (C08) ----------

func genFuzz(stream string, seed uint64, n int) []GenCase {
	r := NewRng(seed)
	var out []GenCase
	id := 0
	addOpt := func(script string, obj HV, opt bool, tags ...string) {
		c := Case{ID: fmt.Sprintf("%s-%d", stream, id), Script: script, Opt: opt, Tags: tags, Show: []string{"tokens", "code"},
			Fns:  []HostFn{recFn(), {Name: "hnil", Kind: "nil"}, {Name: "hpanic", Kind: "panic"}},
			Runs: []Run{{Obj: obj, Polls: 5000}, {Obj: stdObject(r), Polls: 5000}}}
		id++
		out = append(out, GenCase{Case: c, Stream: stream, NonTrivial: true})
	}
	add := func(script string, obj HV, tags ...string) { addOpt(script, obj, r.Bool(), tags...) }
	for i := 0; i < n; i++ {
		// random bytes
		nb := r.Intn(30)
		b := make([]byte, nb)
		for k := range b {
			b[k] = byte(r.Intn(256))
		}
		add(string(b), stdObject(r), "random-bytes")
		// token soup
		var sb strings.Builder
		nt := r.Intn(14)
		for k := 0; k < nt; k++ {
			sb.WriteString(Pick(r, []string{"if", "(", ")", "{", "}", "[", "]", "return", ";", "x", "1", "1.5", "\"s\"", "+", "-", "*", "/", "%", "**", "=", "==", "!=", "<", "&&", "||", "!", "?", ":",
				",", ".", "..", "foreach", "in", "while", "for", "function", "f", "local", "switch", "case", "default", "else", "++", "--", "+=", "/re/", "√", "true", "null", "~=", "!~", "'", "\"", "\\", "\x00", "é", "#"}))
			sb.WriteString(Pick(r, []string{" ", "", " ", "\n"}))
		}
		add(sb.String(), stdObject(r), "token-soup")
		// mutated valid program
		g := newG(r.Fork())
		g.chaos = 20
		script := g.program(g.r.Intn(3), 1+g.r.Intn(4), 2)
		if len(script) > 0 {
			bs := []byte(script)
			for k := 0; k < 1+r.Intn(3); k++ {
				p := r.Intn(len(bs))
				switch r.Intn(3) {
				case 0:
					bs = append(bs[:p], bs[p+1:]...)
				case 1:
					bs[p] = byte(Pick(r, []rune("(){}[];,+-*/\"'=<>!?:. \n0a")))
				default:
					bs = append(bs[:p], append([]byte{byte(Pick(r, []rune("(){}[];,+-*/\"'=")))}, bs[p:]...)...)
				}
				if len(bs) == 0 {
					break
				}
			}
			add(string(bs), stdObject(r), "mutated-program")
		}
		add(script, oddObject(r), "valid-program-odd-object")
	}
	// degenerate scripts: nothing at all, blanks, comments only, separators only, definitions only - Prepare and
	// every kind of run give a value or an error, the same each time
	for _, sc := range []string{"", " ", "\n", "\t\r\n", "// c", "// c\n", "// a\n// b\n", ";", ";;", "; ;\n;", "function f() { }", "function f() { } function g() { return 1; }", "function f(a) { return a; } // only a definition",
		"{}", "{ }", "()", "return", "return;", "return ;", "local x;", "1", "1;", "\"s\"", "x", "x;"} {
		c := Case{ID: fmt.Sprintf("%s-%d", stream, id), Script: sc, Opt: id%2 == 0, Tags: []string{"degenerate-script"}, Show: []string{"runbool", "spec", "tokens"},
			Fns:  []HostFn{recFn()},
			Runs: []Run{{Obj: stdObject(r), Polls: 5000}, {Obj: HV{Kind: "nil"}, Polls: 5000}, {Obj: stdObject(r), Polls: 0}}}
		id++
		out = append(out, GenCase{Case: c, Stream: stream, NonTrivial: true, Role: "api"})
	}
	// a host function may hand back nil in either of Go's two ways - the nil interface, or a nil pointer of an object
	// type inside it: an error either way, through Execute and through Run, and the evaluator stays usable
	for kind := 0; kind <= 3; kind++ {
		for _, sc := range []string{"return hn();", "x = hn(); return 1;", "function f() { return hn(); } return f();", "if (hn()) { return 1; } return 2;", "return [1, hn()];", "hn(); return 3;", "return string(hn());"} {
			c := Case{ID: fmt.Sprintf("%s-%d", stream, id), Script: sc, Opt: id%2 == 0, Tags: []string{"host-nil-value"}, Show: []string{"runbool", "spec"},
				Fns:  []HostFn{recFn(), {Name: "hn", Kind: "nil", I: kind}},
				Runs: []Run{{Obj: stdObject(r), Polls: 5000}, {Obj: stdObject(r), Polls: 5000}}}
			id++
			out = append(out, GenCase{Case: c, Stream: stream, NonTrivial: true, Role: "api"})
		}
	}
	// a host function may panic with any value, not just a string: an error, an integer, a struct, a slice, a float
	for kind := 0; kind <= 6; kind++ {
		for _, sc := range []string{"return hp();", "x = hp(); return 1;", "function f() { return hp(); } return f();", "if (Flag) { return hp(); } return 2;", "foreach v in [1, 2] { hp(); } return 3;"} {
			c := Case{ID: fmt.Sprintf("%s-%d", stream, id), Script: sc, Opt: id%2 == 0, Tags: []string{"host-panic-value"}, Show: []string{"runbool", "spec"},
				Fns:  []HostFn{recFn(), {Name: "hp", Kind: "panic", I: kind}},
				Runs: []Run{{Obj: stdObject(r), Polls: 5000}, {Obj: stdObject(r), Polls: 5000}}}
			id++
			out = append(out, GenCase{Case: c, Stream: stream, NonTrivial: true, Role: "api"})
		}
	}
	// every kind of odd host object, every field of it read alone and together, through Execute and through Run
	for k := 0; k < 9; k++ {
		for _, sc := range []string{"return Count;", "return Name;", "return Tags;", "return Nums;", "return Flag;", "return Score;", "return Big;", "return Missing;",
			"return [Count, Name, Tags, Nums, Flag, Score, Big];", "if (Nums) { return 1; } return 2;", "x = Nums; y = Flag; return [x, y, len(Tags), type(Nums), string(Flag)];",
			"foreach v in Nums { rec(v); } return 1;", "foreach v in Tags { rec(v); } return len(Big);"} {
			c := Case{ID: fmt.Sprintf("%s-%d", stream, id), Script: sc, Opt: id%2 == 0, Tags: []string{"odd-object-sweep"}, Show: []string{"runbool", "spec"},
				Fns:  []HostFn{recFn(), {Name: "hnil", Kind: "nil"}, {Name: "hpanic", Kind: "panic"}},
				Runs: []Run{{Obj: oddObjectN(k), Polls: 5000}, {Obj: stdObject(r), Polls: 5000}}}
			id++
			out = append(out, GenCase{Case: c, Stream: stream, NonTrivial: true, Role: "api"})
		}
	}
	// unbounded recursion must come to an error (call-depth limit), with the evaluator usable afterwards
	{
		c := Case{ID: fmt.Sprintf("%s-%d", stream, id), Script: "function r(n) { return r(n + 1); } if (Flag) { return r(0); } return 7;", Opt: true, Tags: []string{"unbounded-recursion"},
			Fns: []HostFn{recFn()}, Runs: []Run{{Obj: HV{Kind: "struct", Fields: []HField{{"Flag", true, HV{Kind: "bool", B: true}}}}, Polls: 190000},
				{Obj: HV{Kind: "struct", Fields: []HField{{"Flag", true, HV{Kind: "bool", B: false}}}}, Polls: 5000}}}
		id++
		out = append(out, GenCase{Case: c, Stream: stream, NonTrivial: true})
	}
	// ... also when the next run calls functions itself, and when the failures happen deep inside nested calls
	// (an error, a panic, a nil from a host function, a time-out at depth): whatever was in progress is forgotten
	for _, script := range []string{
		"function r(n) { return r(n + 1); } function ok(a) { return a + 1; } if (Flag) { return r(0); } return ok(6);",
		"function d(n) { if (n > 9000) { return 1 / 0; } return d(n + 1); } function ok(a) { return a + 1; } if (Flag) { return d(0); } return ok(ok(5));",
		"function d(n) { if (n > 6000) { return hpanic(); } return d(n + 1); } function ok(a) { return a + 1; } if (Flag) { return d(0); } return ok(ok(5));",
		"function d(n) { if (n > 6000) { return hnil(); } return d(n + 1); } function ok(a) { return a + 1; } if (Flag) { return d(0); } return ok(ok(5));",
		"function d(n) { if (n > 7000) { while (true) { } } return d(n + 1); } function ok(a) { return a + 1; } if (Flag) { return d(0); } return ok(ok(5));",
		"function d(n) { if (n > 6000) { panic(\"deep\"); } return d(n + 1); } function ok(a) { return a + 1; } if (Flag) { return d(0); } return ok(ok(5));",
	} {
		on := HV{Kind: "struct", Fields: []HField{{"Flag", true, HV{Kind: "bool", B: true}}}}
		off := HV{Kind: "struct", Fields: []HField{{"Flag", true, HV{Kind: "bool", B: false}}}}
		c := Case{ID: fmt.Sprintf("%s-%d", stream, id), Script: script, Opt: id%2 == 0, Tags: []string{"failure-at-depth-then-reuse"},
			Fns:  []HostFn{recFn(), {Name: "hnil", Kind: "nil"}, {Name: "hpanic", Kind: "panic"}},
			Runs: []Run{{Obj: on, Polls: 190000}, {Obj: off, Polls: 5000}, {Obj: on, Polls: 190000}, {Obj: on, Polls: 190000}, {Obj: off, Polls: 5000}}}
		id++
		out = append(out, GenCase{Case: c, Stream: stream, NonTrivial: true})
	}
	// run-time faults inside scripts
	for _, s := range []string{"return [1][5] + 1;", "return 1 / 0;", "return 1 % 0;", "return 1.5 % 0.2;", "return \"a\" - 1;", "panic(\"boom\");", "panic();", "return nosuch(1);",
		"function f(a) { return a; } return f();", "return hnil();", "return hpanic();", "x = print(1); return x;", "return {[1]: 2};", "return {true: 1};", "return -\"a\";",
		"foreach x in 5 { }", "return 3..1;", "return 1..\"a\";", "x = 1; x.y = 2;", "return len();", "return sort(1, 2, 3);", "return sprintf(\"%d\");", "return sprintf(\"%z\", 1);", "return match(\"a\", \"(\");",
		"return replace(\"a\", \"(\", \"b\");", "return [1,2,3][\"a\"];", "return \"abc\"[1.5];", "return Missing.field;", "return Missing[0];", "return 1 in 2;", "return √\"a\";", "return √-1;",
		"function r(n) { return r(n + 1); } return r(0);", "function d(n) { if (n > 300) { return n; } return d(n + 1); } return d(0);", "while (true) { }", "x = 0; while (true) { x++; }", "return int(\"999999999999999999999\");", "return float(\"1e999\");",
		"return 9223372036854775807 + 1;", "return -9223372036854775807 - 2;", "return 9223372036854775807 * 2;", "return (0 - 9223372036854775807 - 1) / -1;", "return (0 - 9223372036854775807 - 1) % -1;",
		"return hour(\"x\");", "return weekday(99999999999);", "return year(-99999999999);", "return keys(1);", "return join([1, [2, [3]]], \",\");", "return string({1: {2: [3]}});",
		"x++; return x;", "++;", "--;", "(1)++;", "return 1; ++;", "\"s\"++;", "return (1, 2);", "OPTIMIZE = 5; return OPTIMIZE;", "return \"a\"(1);", "return 1(2);", "return (f)(1);", "return [1][0](2);"} {
		addOpt(s, stdObject(r), true, "runtime-fault")
		addOpt(s, stdObject(r), false, "runtime-fault")
		add(s, oddObject(r), "runtime-fault-odd-object")
	}
	// faults in constant expressions, which the optimizer may try to evaluate while Prepare runs:
	// every operator between small literals with a zero / negative / huge right operand, in live and dead code
	for _, op := range []string{"+", "-", "*", "/", "%", "**", "==", "!=", "<", "<=", ">", ">=", "&&", "||", "..", "in", "~=", "!~"} {
		for _, operands := range [][2]string{{"7", "0"}, {"0", "0"}, {"7", "(3 - 3)"}, {"65534", "65534"}, {"2", "64"}, {"7", "65535"}, {"0", "7"}, {"1", "-1"}} {
			e := operands[0] + " " + op + " " + operands[1]
			for _, t := range []string{"return " + e + ";", "if (" + e + " == 1) { return true; } return false;", "if (false) { x = " + e + "; } return 1;",
				"function f() { return " + e + "; } return 2;", "return true ? 1 : " + e + ";"} {
				addOpt(t, stdObject(r), true, "constant-fault")
			}
		}
	}
	for _, e := range []string{"√0", "√-4", "√(0 - 4)", "√65534", "-0", "!0", "√√16", "√4 % 0", "√9 / 0", "-(1 / 0)"} {
		addOpt("return "+e+";", stdObject(r), true, "constant-fault")
		addOpt("if (false) { return "+e+"; } return 1;", stdObject(r), true, "constant-fault")
	}
	return out
}

// oddObject: host objects the engine cannot fully convert
func oddObject(r *Rng) HV {
	switch r.Intn(9) {
	case 0:
		return HV{Kind: "nil"}
	case 1:
		return HV{Kind: "int", IntKind: "int", I: 5} // not a struct at all
	case 2:
		return HV{Kind: "str", S: "just a string"}
	case 3:
		return HV{Kind: "nilptr"}
	case 4:
		return HV{Kind: "struct", Fields: []HField{{"Count", true, HV{Kind: "uint", U: 3}}, {"Name", true, HV{Kind: "ptr", To: &HV{Kind: "str", S: "p"}}},
			{"Score", true, HV{Kind: "int", IntKind: "int8", I: 3}}, {"Flag", true, HV{Kind: "opaque", Opaque: "func"}}, {"Tags", true, HV{Kind: "opaque", Opaque: "chan"}},
			{"Nums", true, HV{Kind: "struct", Fields: []HField{{"Inner", true, HV{Kind: "int", IntKind: "int", I: 1}}}}}, {"Big", true, HV{Kind: "iface", To: &HV{Kind: "int", IntKind: "int", I: 9}}}}}
	case 5:
		return HV{Kind: "map", ElemIface: false, KeyKind: "str", Entries: [][2]HV{{{Kind: "str", S: "Count"}, {Kind: "int", IntKind: "int", I: 1}}}} // map[string]int: Elem() panics
	case 6:
		return HV{Kind: "map", ElemIface: true, KeyKind: "int", Entries: [][2]HV{{{Kind: "int", IntKind: "int", I: 1}, {Kind: "int", IntKind: "int", I: 1}}}} // map[int]interface{}
	case 7:
		return HV{Kind: "map", ElemIface: true, KeyKind: "str", Entries: [][2]HV{
			{{Kind: "str", S: "Count"}, {Kind: "f64", F: 2}}, {{Kind: "str", S: "Name"}, {Kind: "nil"}},
			{{Kind: "str", S: "Tags"}, {Kind: "slice", ElemKind: "iface", Els: []HV{{Kind: "str", S: "a"}, {Kind: "nil"}, {Kind: "f64", F: 1}, {Kind: "slice", ElemKind: "iface"}}}},
			{{Kind: "str", S: "Nums"}, {Kind: "map", ElemIface: true, KeyKind: "str", Entries: [][2]HV{{{Kind: "str", S: "k"}, {Kind: "bool", B: true}}}}},
			{{Kind: "str", S: "Flag"}, {Kind: "map", ElemIface: true, KeyKind: "int", Entries: [][2]HV{{{Kind: "int", IntKind: "int", I: 3}, {Kind: "str", S: "v"}}}}}}}
	default:
		return HV{Kind: "ptr", To: &HV{Kind: "struct", Fields: []HField{{"Count", true, HV{Kind: "int", IntKind: "int64", I: 4}}, {"Name", true, HV{Kind: "str", S: "via pointer"}}}}}
	}
}
