package main

// `harness race`: goroutines calling Run on a shared evaluator and preparing/running
// their own evaluators.  Built with -race by ./check (supporting evidence for C11;
// also the search for failing schedules when a C11 obligation breaks).

import (
	"fmt"
	"os"
	"sync"

	evalfilter "github.com/skx/evalfilter/v2"
	"github.com/skx/evalfilter/v2/object"
)

type raceObj struct {
	Count int
	Name  string
	Tags  []string
}

func raceMain(goroutines, rounds int, seed uint64) int {
	r := NewRng(seed)
	bad := 0
	scripts := []string{
		"n = n + 1; return Count > 2;",
		"n = n + 1; if (Name ~= /^b/ || match(Name, \"o\")) { return true; } return len(Tags) > 1;",
		"n = n + 1; total = total + Count; foreach t in Tags { if (t == \"x\") { return true; } } return replace(Name, /a/, \"b\") == \"bbb\";",
		"function f(c) { n = n + 1; return c * 2; } return f(Count) > 4;",
		// hashes with string keys (key hashing), built-ins with caches or tables: shared package state, if any
		"n = n + 1; h = {\"a\": Count, \"b\": Name, \"k\" + Name: 1}; k = keys(h); if (h[\"a\"] != Count) { return nosuch(); } if (h[\"k\" + Name] != 1) { return nosuch(); } return len(k) == 3 && Count > 2;",
		"n = n + 1; xs = sort([Name, \"m\", \"z\"]); s = sprintf(\"%s-%d\", Name, Count); if (lower(upper(s)) != lower(s)) { return nosuch(); } return xs[0] <= xs[1] && Count > 2;",
		"n = n + 1; t = 86400 * Count; d = [year(t), month(t), day(t), weekday(t), hour(t)]; if (d[0] != 1970) { return nosuch(); } return split(\"a,b\", \",\")[1] == \"b\" && Count > 2;",
	}
	names := []string{"bob", "alice", "aaa", "", "foo", "zed"}
	for si, script := range scripts {
		// sequential verdicts, on a fresh evaluator
		objs := make([]raceObj, goroutines*rounds)
		for i := range objs {
			objs[i] = raceObj{Count: r.Intn(6), Name: Pick(r, names), Tags: []string{Pick(r, []string{"x", "y"}), "z"}[:1+r.Intn(2)]}
		}
		seq := evalfilter.New(script)
		seq.SetVariable("n", &object.Integer{Value: 0})
		seq.SetVariable("total", &object.Integer{Value: 0})
		if err := seq.Prepare(); err != nil {
			fmt.Println("prepare failed:", err)
			return 1
		}
		want := make([]bool, len(objs))
		for i, o := range objs {
			want[i], _ = seq.Run(o)
		}
		wantTotal := seq.GetVariable("total").Inspect()

		shared := evalfilter.New(script)
		shared.SetVariable("n", &object.Integer{Value: 0})
		shared.SetVariable("total", &object.Integer{Value: 0})
		if err := shared.Prepare(); err != nil {
			return 1
		}
		got := make([]bool, len(objs))
		var wg sync.WaitGroup
		for g := 0; g < goroutines; g++ {
			wg.Add(1)
			go func(g int) {
				defer wg.Done()
				for k := 0; k < rounds; k++ {
					i := g*rounds + k
					v, err := shared.Run(objs[i])
					if err != nil {
						v = false
					}
					got[i] = v
				}
			}(g)
			// at the same time: goroutines with their own evaluators (regexp cache, built-ins)
			wg.Add(1)
			go func(g int) {
				defer wg.Done()
				own := evalfilter.New(scripts[(si+g)%len(scripts)])
				own.SetVariable("n", &object.Integer{Value: 0})
				own.SetVariable("total", &object.Integer{Value: 0})
				if err := own.Prepare(); err != nil {
					return
				}
				for k := 0; k < rounds; k++ {
					own.Run(objs[(g*rounds+k)%len(objs)])
				}
				if own.GetVariable("n").Inspect() != fmt.Sprint(rounds) {
					fmt.Printf("RACE-RESULT own evaluator lost updates: n=%s want %d\n", own.GetVariable("n").Inspect(), rounds)
					bad++
				}
			}(g)
		}
		wg.Wait()
		for i := range objs {
			if got[i] != want[i] {
				fmt.Printf("RACE-RESULT script %d object %d: concurrent verdict %v, sequential verdict %v\n", si, i, got[i], want[i])
				bad++
				break
			}
		}
		if n := shared.GetVariable("n").Inspect(); n != fmt.Sprint(len(objs)) {
			fmt.Printf("RACE-RESULT script %d: lost update: n=%s after %d runs\n", si, n, len(objs))
			bad++
		}
		if t := shared.GetVariable("total").Inspect(); si == 2 && t != wantTotal {
			fmt.Printf("RACE-RESULT script %d: total=%s, sequential %s\n", si, t, wantTotal)
			bad++
		}
	}
	fmt.Printf("race: %d scripts x %d goroutines x %d rounds, %d mismatches\n", len(scripts), goroutines, rounds, bad)
	if bad > 0 {
		return 1
	}
	return 0
}

func init() {
	if len(os.Args) > 1 && os.Args[1] == "race" {
		g, rd := 16, 50
		var seed uint64 = 1
		for i := 2; i+1 < len(os.Args); i += 2 {
			switch os.Args[i] {
			case "-goroutines":
				fmt.Sscanf(os.Args[i+1], "%d", &g)
			case "-rounds":
				fmt.Sscanf(os.Args[i+1], "%d", &rd)
			case "-seed":
				fmt.Sscanf(os.Args[i+1], "%d", &seed)
			}
		}
		os.Exit(raceMain(g, rd, seed))
	}
}
