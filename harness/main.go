package main

// Correspondence harness: generates cases, runs them on the real library
// (worker sub-processes of this binary) and on the Lean model (driver
// sub-processes), and compares the two line by line, key by key.

import (
	"strconv"
	"bufio"
	"encoding/json"
	"flag"
	"fmt"
	"os"
	"os/exec"
	"runtime"
	"sort"
	"strings"
	"sync"
	"sync/atomic"
	"time"
)

type Disagreement struct {
	ID     string `json:"id"`
	Stream string `json:"stream"`
	Key    string `json:"key"`
	Impl   string `json:"impl"`
	Model  string `json:"model"`
	Case   string `json:"case"`
	Script string `json:"script"`
}

type OracleViolation struct {
	ID     string `json:"id"`
	Stream string `json:"stream"`
	Oracle string `json:"oracle"`
	Detail string `json:"detail"`
	Case   string `json:"case"`
	Script string `json:"script"`
	Known  string `json:"known,omitempty"`
	// NoInput: an obligation that no longer checks, with no input known on which the property fails
	NoInput bool `json:"no_input,omitempty"`
}

type Result struct {
	Property      string            `json:"property"`
	Tier          string            `json:"tier"`
	Seed          uint64            `json:"seed"`
	Cases         int               `json:"cases"`
	Distinct      int               `json:"distinct_nontrivial"`
	Compared      int               `json:"compared_keys"`
	Skipped       int               `json:"skipped_model_unsupported"`
	Disagreements []Disagreement    `json:"disagreements"`
	Violations    []OracleViolation `json:"violations"`
	Known         []OracleViolation `json:"known_findings"`
	Crashes       []string          `json:"crashes"`
	ResourceSkips []string          `json:"resource_skips"` // cases given up for time/memory (not crashes)
	ModelCrashes  []string          `json:"model_crashes"`  // cases on which the model's driver ran out of native stack: not compared
	Streams       map[string]int    `json:"streams"`
	Tags          map[string]int    `json:"tags"`
	Outcomes      map[string]int    `json:"outcomes"`
	Samples       []string          `json:"samples"`
	WallS         float64           `json:"wall_s"`
	OptValidation map[string]int    `json:"opt_validation,omitempty"` // translation validation of the optimizer on the real bytes
}

func parseLine(line string) (id string, kv map[string]string) {
	parts := strings.Split(strings.TrimSpace(line), " ")
	kv = map[string]string{}
	if len(parts) == 0 {
		return "", kv
	}
	id = parts[0]
	for _, p := range parts[1:] {
		i := strings.IndexByte(p, '=')
		if i < 0 {
			continue
		}
		kv[p[:i]] = p[i+1:]
	}
	return
}

// exit status of a worker that gave up on a case because it needed more than the per-case budget of
// time or memory (a script that makes its data grow exponentially inside built-ins, where the
// instruction-poll budget does not bite): not a crash of the library, the case is skipped and counted
const resourceExit = 77

var caseStarted atomic.Int64

func resourceWatchdog() {
	for {
		time.Sleep(500 * time.Millisecond)
		var ms runtime.MemStats
		runtime.ReadMemStats(&ms)
		t0 := caseStarted.Load()
		if ms.HeapAlloc > 3<<30 || (t0 != 0 && time.Now().UnixNano()-t0 > int64(45*time.Second)) {
			os.Exit(resourceExit)
		}
	}
}

func workerMain(prop, tier string, seed uint64, shard, shards, from int) {
	cases := Generate(prop, tier, seed)
	w := bufio.NewWriter(realStdout)
	defer w.Flush()
	go resourceWatchdog()
	n := 0
	for i := range cases {
		if i%shards != shard {
			continue
		}
		if n >= from {
			caseStarted.Store(time.Now().UnixNano())
			line := RunImpl(&cases[i].Case)
			caseStarted.Store(0)
			w.WriteString(line + "\n")
			w.Flush()
		}
		n++
	}
}

// runWorkers runs the IMPL side in `shards` sub-processes; a worker that dies is restarted after
// the case that killed it, which is reported as a crash.
func runWorkers(self, prop, tier string, seed uint64, shards int, perShard [][]int, cases []GenCase) (map[string]string, []string, []string) {
	out := map[string]string{}
	var crashes, resource []string
	var mu sync.Mutex
	var wg sync.WaitGroup
	for s := 0; s < shards; s++ {
		wg.Add(1)
		go func(s int) {
			defer wg.Done()
			from := 0
			for from < len(perShard[s]) {
				cmd := exec.Command(self, "worker", "-prop", prop, "-tier", tier, "-seed", fmt.Sprint(seed),
					"-shard", fmt.Sprint(s), "-shards", fmt.Sprint(shards), "-from", fmt.Sprint(from))
				cmd.Env = append(os.Environ(), "TZ=UTC", "VERIF_FIXED=fixed-value", "GOMEMLIMIT=2GiB")
				cmd.Stderr = nil
				pipe, err := cmd.StdoutPipe()
				if err != nil {
					panic(err)
				}
				if err := cmd.Start(); err != nil {
					panic(err)
				}
				sc := bufio.NewScanner(pipe)
				sc.Buffer(make([]byte, 1<<20), 1<<28)
				got := 0
				for sc.Scan() {
					id, _ := parseLine(sc.Text())
					mu.Lock()
					out[id] = sc.Text()
					mu.Unlock()
					got++
				}
				werr := cmd.Wait()
				from += got
				if from < len(perShard[s]) {
					// the worker died while running case perShard[s][from]
					mu.Lock()
					if ee, ok := werr.(*exec.ExitError); ok && ee.ExitCode() == resourceExit {
						resource = append(resource, cases[perShard[s][from]].Case.ID)
					} else {
						crashes = append(crashes, cases[perShard[s][from]].Case.ID)
					}
					mu.Unlock()
					from++
				}
			}
		}(s)
	}
	wg.Wait()
	return out, crashes, resource
}

func runDrivers(driver string, shards int, perShard [][]int, cases []GenCase) map[string]string {
	out := map[string]string{}
	var mu sync.Mutex
	var wg sync.WaitGroup
	for s := 0; s < shards; s++ {
		wg.Add(1)
		go func(s int) {
			defer wg.Done()
			if len(perShard[s]) == 0 {
				return
			}
			// the driver is a native program: a model evaluation that exhausts its stack kills it.
			// The case it died on is marked (modelcrash=1, reported in the evidence, never compared)
			// and a fresh driver takes the rest of the shard.
			var todo []int
			for _, idx := range perShard[s] {
				if !cases[idx].ModelFree { // judged without the model: nothing to ask it
					todo = append(todo, idx)
				}
			}
			for len(todo) > 0 {
				cmd := exec.Command(driver)
				stdin, _ := cmd.StdinPipe()
				pipe, _ := cmd.StdoutPipe()
				cmd.Stderr = os.Stderr
				if err := cmd.Start(); err != nil {
					panic(err)
				}
				go func(todo []int) {
					w := bufio.NewWriter(stdin)
					for _, idx := range todo {
						w.WriteString(cases[idx].Case.Sexp() + "\n")
					}
					w.Flush()
					stdin.Close()
				}(todo)
				sc := bufio.NewScanner(pipe)
				sc.Buffer(make([]byte, 1<<20), 1<<28)
				done := 0
				for sc.Scan() {
					id, _ := parseLine(sc.Text())
					mu.Lock()
					out[id] = sc.Text()
					mu.Unlock()
					if done < len(todo) && cases[todo[done]].Case.ID == id {
						done++
					}
				}
				cmd.Wait()
				if done >= len(todo) {
					break
				}
				id := cases[todo[done]].Case.ID
				fmt.Fprintf(os.Stderr, "model driver died on case %s; restarting after it\n", id)
				mu.Lock()
				out[id] = id + " modelcrash=1"
				mu.Unlock()
				todo = todo[done+1:]
			}
		}(s)
	}
	wg.Wait()
	return out
}

func main() {
	if len(os.Args) < 2 {
		fmt.Fprintln(os.Stderr, "usage: harness run|worker|one ...")
		os.Exit(2)
	}
	fs := flag.NewFlagSet(os.Args[1], flag.ExitOnError)
	prop := fs.String("prop", "C01", "property id")
	tier := fs.String("tier", "quick", "quick|thorough")
	seed := fs.Uint64("seed", 1, "seed")
	shard := fs.Int("shard", 0, "")
	shards := fs.Int("shards", 1, "")
	from := fs.Int("from", 0, "")
	driver := fs.String("driver", "/verif/lean/.lake/build/bin/driver", "")
	outPath := fs.String("out", "", "result json")
	known := fs.String("known", "/verif/known_findings.json", "")
	fs.Parse(os.Args[2:])

	switch os.Args[1] {
	case "worker":
		os.Setenv("TZ", "UTC")
		workerMain(*prop, *tier, *seed, *shard, *shards, *from)
		return
	case "replay":
		// replay a stored case (JSON with field "gen": prop/tier/seed/id) on the current tree
		replayMain(fs.Args(), *driver)
		return
	case "run":
	default:
		fmt.Fprintln(os.Stderr, "unknown command")
		os.Exit(2)
	}

	start := time.Now()
	self, _ := os.Executable()
	cases := Generate(*prop, *tier, *seed)
	nsh := runtime.NumCPU()
	if nsh > 16 {
		nsh = 16
	}
	if nsh > len(cases) {
		nsh = len(cases)
	}
	if nsh < 1 {
		nsh = 1
	}
	perShard := make([][]int, nsh)
	for i := range cases {
		perShard[i%nsh] = append(perShard[i%nsh], i)
	}
	var implOut, modelOut map[string]string
	var crashes, resource []string
	var wg sync.WaitGroup
	wg.Add(2)
	go func() {
		defer wg.Done()
		implOut, crashes, resource = runWorkers(self, *prop, *tier, *seed, nsh, perShard, cases)
	}()
	go func() { defer wg.Done(); modelOut = runDrivers(*driver, nsh, perShard, cases) }()
	wg.Wait()

	res := Result{Property: *prop, Tier: *tier, Seed: *seed, Cases: len(cases),
		Streams: map[string]int{}, Tags: map[string]int{}, Outcomes: map[string]int{}, Crashes: crashes, ResourceSkips: resource}
	kf := loadKnown(*known)
	distinct := map[string]bool{}
	implKV := map[string]map[string]string{}
	for i := range cases {
		gc := &cases[i]
		c := &gc.Case
		res.Streams[gc.Stream]++
		for _, t := range c.Tags {
			res.Tags[t]++
		}
		il, iok := implOut[c.ID]
		ml, mok := modelOut[c.ID]
		if !iok {
			continue // crash, reported separately
		}
		_, ikv := parseLine(il)
		implKV[c.ID] = ikv
		if gc.NonTrivial {
			distinct[c.Script+"\x00"+fmt.Sprint(c.Opt)+fmt.Sprint(len(c.Runs))+objKey(c)] = true
		}
		for k, v := range ikv {
			if strings.HasPrefix(k, "r") && len(k) > 1 && k[1] >= '0' && k[1] <= '9' {
				cls := v
				if strings.HasPrefix(v, "V:") {
					cls = "V:" + strings.SplitN(v[2:], ":", 2)[0]
				}
				res.Outcomes[cls]++
				if strings.HasPrefix(v, "ESCAPED") {
					res.Violations = append(res.Violations, OracleViolation{ID: c.ID, Stream: gc.Stream, Oracle: "panic-escaped",
						Detail: k + "=" + v, Case: c.Sexp(), Script: c.Script})
				}
			}
		}
		if ikv["prep"] == "panic" {
			res.Violations = append(res.Violations, OracleViolation{ID: c.ID, Stream: gc.Stream, Oracle: "prepare-panicked",
				Detail: il, Case: c.Sexp(), Script: c.Script})
		}
		if gc.ModelFree {
			continue
		}
		if !mok {
			res.Disagreements = append(res.Disagreements, Disagreement{ID: c.ID, Stream: gc.Stream, Key: "(no model output)", Impl: il, Case: c.Sexp(), Script: c.Script})
			continue
		}
		_, mkv := parseLine(ml)
		if mkv["modelcrash"] == "1" {
			// the model's evaluation of this case exhausted the driver's native stack: the model gave no answer.
			// A handful per run is a resource limit of the machinery; more than that is reported as a disagreement.
			res.ModelCrashes = append(res.ModelCrashes, c.ID)
			if len(res.ModelCrashes) > 3 {
				res.Disagreements = append(res.Disagreements, Disagreement{ID: c.ID, Stream: gc.Stream, Key: "(model driver crashed)", Impl: il, Case: c.Sexp(), Script: c.Script})
			}
			continue
		}
		// a run the model cannot answer (unsupported library behaviour, out of fuel) ends the comparison of this case
		stop := -1
		for k, v := range mkv {
			if strings.HasPrefix(v, "X:") && k[0] == 'r' {
				var n int
				fmt.Sscanf(k[1:], "%d", &n)
				if stop < 0 || n < stop {
					stop = n
				}
			}
		}
		if stop >= 0 {
			res.Skipped++
		}
		var firstDiff *Disagreement
		keys := make([]string, 0, len(ikv))
		for k := range ikv {
			keys = append(keys, k)
		}
		sort.Strings(keys)
		for _, k := range keys {
			if gc.IgnoreKeys != nil && gc.IgnoreKeys[k[:1]] && k != "prep" {
				continue
			}
			if implOnlyKey(k) {
				continue
			}
			if stop >= 0 && len(k) > 1 && k[1] >= '0' && k[1] <= '9' {
				var n int
				fmt.Sscanf(k[1:], "%d", &n)
				if n >= stop {
					continue
				}
			}
			mv, ok := mkv[k]
			if !ok {
				if k == "prep" || mkv["prep"] == ikv["prep"] {
					if _, isRunKey := ikv[k]; isRunKey && mkv["prep"] == "ok" && ikv["prep"] == "ok" {
						res.Disagreements = append(res.Disagreements, Disagreement{ID: c.ID, Stream: gc.Stream, Key: k, Impl: ikv[k], Model: "(missing)", Case: c.Sexp(), Script: c.Script})
						break
					}
				}
				continue
			}
			res.Compared++
			if mv != ikv[k] {
				// report the observable difference if there is one (result, then output, then variables),
				// otherwise the first internal one
				d := Disagreement{ID: c.ID, Stream: gc.Stream, Key: k, Impl: ikv[k], Model: mv, Case: c.Sexp(), Script: c.Script}
				if firstDiff == nil || keyRank(k) < keyRank(firstDiff.Key) {
					firstDiff = &d
				}
			}
		}
		if firstDiff != nil {
			res.Disagreements = append(res.Disagreements, *firstDiff)
		}
		if len(res.Samples) < 8 && i%(len(cases)/8+1) == 0 {
			res.Samples = append(res.Samples, gc.Stream+": "+truncate(c.Script, 200))
		}
	}
	// the byte-code verifier (Lean, proved sound) on the code the implementation really holds
	// (for the properties about the compiled program; the fuzz streams of other properties contain mutated
	// scripts that fall under the open finding KF-25 by construction)
	if *prop == "C18" || *prop == "C03" || *prop == "C02" {
		for _, v := range runWfQueries(*driver, cases, implKV, modelOut) {
			res.Violations = append(res.Violations, v)
		}
	}
	// translation validation of the optimizer: every step from the raw bytes the implementation really
	// compiled to the optimised bytes it really holds must be one the Lean validator (proved sound) accepts
	var notValidated []OracleViolation
	if *prop == "C03" {
		notValidated, res.OptValidation = runOptvQueries(*driver, cases, implKV)
	}
	// direct oracles: relations between IMPL lines
	behavioural := map[string]bool{}
	for _, v := range RunOracles(*prop, cases, implKV) {
		behavioural[v.ID] = true
		if id := kf.match(*prop, v); id != "" {
			v.Known = id
			res.Known = append(res.Known, v)
		} else {
			res.Violations = append(res.Violations, v)
		}
	}
	for _, v := range notValidated {
		v.NoInput = !behavioural[v.ID] // the behavioural oracle (optimised vs NoOptimize) is the search for a failing input
		res.Violations = append(res.Violations, v)
	}
	// violations found above (escaped panics) may also be known findings
	var remaining []OracleViolation
	for _, v := range res.Violations {
		if v.Known == "" {
			if id := kf.match(*prop, v); id != "" {
				v.Known = id
				res.Known = append(res.Known, v)
				continue
			}
		}
		remaining = append(remaining, v)
	}
	res.Violations = remaining
	for _, cr := range crashes {
		for i := range cases {
			if cases[i].Case.ID == cr {
				v := OracleViolation{ID: cr, Stream: cases[i].Stream, Oracle: "process-crashed", Detail: "worker process died while running this case",
					Case: cases[i].Case.Sexp(), Script: cases[i].Case.Script}
				if id := kf.match(*prop, v); id != "" {
					v.Known = id
					res.Known = append(res.Known, v)
				} else {
					res.Violations = append(res.Violations, v)
				}
			}
		}
	}
	res.Distinct = len(distinct)
	res.WallS = time.Since(start).Seconds()
	b, _ := json.MarshalIndent(res, "", " ")
	if *outPath != "" {
		os.WriteFile(*outPath, b, 0o644)
	} else {
		os.Stdout.Write(b)
	}
	fmt.Fprintf(os.Stderr, "harness %s %s seed=%d: cases=%d compared=%d skipped=%d disagreements=%d violations=%d known=%d crashes=%d (%.1fs)\n",
		*prop, *tier, *seed, len(cases), res.Compared, res.Skipped, len(res.Disagreements), len(res.Violations), len(res.Known), len(crashes), res.WallS)
}

func truncate(s string, n int) string {
	if len(s) > n {
		return s[:n] + "…"
	}
	return s
}

func objKey(c *Case) string {
	var sb strings.Builder
	for _, r := range c.Runs {
		sb.WriteString(r.Obj.Sexp())
		fmt.Fprintf(&sb, "/%d;", r.Polls)
	}
	for _, v := range c.Vars {
		sb.WriteString(v.Name + "=" + v.V.Sexp())
	}
	return sb.String()
}

// keys produced only by the IMPL side (direct oracles): used-vs-fresh (f,h,j,q), Run (b), stack residue (k), Dump
func implOnlyKey(k string) bool {
	if k == "dump" {
		return true
	}
	if len(k) >= 2 && k[1] >= '0' && k[1] <= '9' {
		switch k[0] {
		case 'f', 'h', 'j', 'q', 'b', 'k':
			return true
		}
	}
	return false
}

// runOptvQueries sends, for every accepted optimised case whose code was dumped, the implementation's raw and
// optimised bodies to the Lean validator (`fullTrace`): each step of the optimizer must validate and the result
// must be the optimised body.  Refusals of the square-root fold are the known finding KF-12 (decided by
// the behavioural oracle), and only counted here.
func runOptvQueries(driver string, cases []GenCase, implKV map[string]map[string]string) ([]OracleViolation, map[string]int) {
	stats := map[string]int{"programs": 0, "validated": 0, "steps_validated": 0, "refused_sqrt_fold": 0, "refused_other": 0, "differs": 0}
	var lines []string
	byID := map[string]*GenCase{}
	split := func(fns string) []string {
		var out []string
		if fns == "" {
			return out
		}
		for _, f := range strings.Split(fns, ";") {
			parts := strings.Split(f, ":")
			if len(parts) == 3 {
				out = append(out, parts[2])
			}
		}
		return out
	}
	for i := range cases {
		gc := &cases[i]
		ikv := implKV[gc.Case.ID]
		if ikv == nil || ikv["prep"] != "ok" || !gc.Case.Opt {
			continue
		}
		raw, ok1 := ikv["raw"]
		main, ok2 := ikv["main"]
		if !ok1 || !ok2 || raw == "PREPFAIL" {
			continue
		}
		rf, of := split(ikv["rawfns"]), split(ikv["fns"])
		if len(rf) != len(of) {
			continue
		}
		var sb strings.Builder
		fmt.Fprintf(&sb, "(optv %s (body #%s #%s)", gc.Case.ID, raw, main)
		for j := range rf {
			fmt.Fprintf(&sb, " (body #%s #%s)", rf[j], of[j])
		}
		sb.WriteString(")")
		lines = append(lines, sb.String())
		byID[gc.Case.ID] = gc
	}
	if len(lines) == 0 {
		return nil, stats
	}
	cmd := exec.Command(driver)
	cmd.Stdin = strings.NewReader(strings.Join(lines, "\n") + "\n")
	cmd.Stderr = os.Stderr
	b, err := cmd.Output()
	if err != nil {
		panic(err)
	}
	var out []OracleViolation
	seen := 0
	for _, l := range strings.Split(string(b), "\n") {
		id, kv := parseLine(l)
		if id == "" {
			continue
		}
		seen++
		stats["programs"]++
		if n, err := strconv.Atoi(kv["steps"]); err == nil {
			stats["steps_validated"] += n
		}
		v := kv["optv"]
		switch {
		case v == "ok":
			stats["validated"]++
		case strings.HasSuffix(v, "maths:sqrt-fold"):
			stats["refused_sqrt_fold"]++
		default:
			if strings.HasPrefix(v, "differs") {
				stats["differs"]++
			} else {
				stats["refused_other"]++
			}
			gc := byID[id]
			if gc == nil {
				continue
			}
			out = append(out, OracleViolation{ID: gc.Case.ID, Stream: gc.Stream, Oracle: "optimizer-step-not-validated",
				Detail: "the optimised program the evaluator holds is not shown to refine the raw one: " + v +
					" (theorem OptSim.optimize_refines needs OptCheck.fullTrace to accept every body)", Case: gc.Case.Sexp(), Script: gc.Case.Script})
		}
	}
	if seen != len(lines) {
		panic(fmt.Sprintf("optv queries: %d sent, %d answered", len(lines), seen))
	}
	return out, stats
}

// runWfQueries sends, for every accepted case whose code was dumped, the implementation's constants
// kinds and bodies (before and after optimisation) to the Lean verifier.
func runWfQueries(driver string, cases []GenCase, implKV map[string]map[string]string, modelOut map[string]string) []OracleViolation {
	var lines []string
	byID := map[string]*GenCase{}
	bodies := func(fns string) string {
		var sb strings.Builder
		if fns == "" {
			return ""
		}
		for _, f := range strings.Split(fns, ";") {
			parts := strings.Split(f, ":")
			if len(parts) == 3 {
				sb.WriteString(" (fn #" + parts[2] + ")")
			}
		}
		return sb.String()
	}
	var out []OracleViolation
	vlo := map[string]bool{}
	for i := range cases {
		gc := &cases[i]
		ikv := implKV[gc.Case.ID]
		if ikv == nil || ikv["prep"] != "ok" {
			continue
		}
		if ml, ok := modelOut[gc.Case.ID]; ok {
			_, mkv := parseLine(ml)
			if mkv["vlo"] == "1" {
				vlo[gc.Case.ID] = true
			}
			for _, k := range []string{"wfraw", "wfopt"} {
				if v, ok := mkv[k]; ok && v != "ok" {
					out = append(out, OracleViolation{ID: gc.Case.ID, Stream: gc.Stream, Oracle: "ill-formed-code", Detail: "model-compiled program: " + k + "=" + v + vloNote(mkv["vlo"] == "1"),
						Case: gc.Case.Sexp(), Script: gc.Case.Script})
				}
			}
		}
		main, ok := ikv["main"]
		if !ok {
			continue
		}
		byID[gc.Case.ID] = gc
		var cs strings.Builder
		if ikv["consts"] != "" {
			for _, c := range strings.Split(ikv["consts"], ",") {
				if strings.HasPrefix(c, "STRING:") {
					cs.WriteString(" 1")
				} else {
					cs.WriteString(" 0")
				}
			}
		}
		lines = append(lines, fmt.Sprintf("(wf %s|opt (consts%s) (main #%s)%s)", gc.Case.ID, cs.String(), main, bodies(ikv["fns"])))
		if raw, ok := ikv["raw"]; ok && raw != "PREPFAIL" {
			lines = append(lines, fmt.Sprintf("(wf %s|raw (consts%s) (main #%s)%s)", gc.Case.ID, cs.String(), raw, bodies(ikv["rawfns"])))
		}
	}
	if len(lines) == 0 {
		return out
	}
	cmd := exec.Command(driver)
	cmd.Stdin = strings.NewReader(strings.Join(lines, "\n") + "\n")
	cmd.Stderr = os.Stderr
	b, err := cmd.Output()
	if err != nil {
		panic(err)
	}
	seen := 0
	for _, l := range strings.Split(string(b), "\n") {
		id, kv := parseLine(l)
		if id == "" {
			continue
		}
		seen++
		if kv["wfimpl"] != "ok" {
			parts := strings.SplitN(id, "|", 2)
			gc := byID[parts[0]]
			if gc == nil {
				continue
			}
			out = append(out, OracleViolation{ID: gc.Case.ID, Stream: gc.Stream, Oracle: "ill-formed-code",
				Detail: "the program held by the prepared evaluator (" + parts[1] + ") fails the verifier: " + kv["wfimpl"] + vloNote(vlo[gc.Case.ID]), Case: gc.Case.Sexp(), Script: gc.Case.Script})
		}
	}
	if seen != len(lines) {
		panic(fmt.Sprintf("wf queries: %d sent, %d answered", len(lines), seen))
	}
	return out
}

func vloNote(b bool) string {
	if b {
		return " [the script uses a value-less expression where a value is consumed]"
	}
	return ""
}

// keyRank orders the keys of a case by how observable they are: prep, then per-run result, output,
// variables, truth, scopes, polls; internal layers (tokens, tree, byte code) last.
func keyRank(k string) int {
	if k == "prep" {
		return 0
	}
	if len(k) >= 2 && k[1] >= '0' && k[1] <= '9' {
		switch k[0] {
		case 'r':
			return 1
		case 'o':
			return 2
		case 'g':
			return 3
		case 't':
			return 4
		case 's':
			return 5
		case 'p':
			return 6
		}
	}
	return 10
}
