package main

// Property-specific streams.

import (
	"fmt"
	"math"
)

// ---------- value pool with three provenances ----------

type PV struct {
	Lit   string // script text of a literal denoting the value ("" if none)
	V     Val    // the value for SetVariable
	HasV  bool
	F     *HV // the value as an object field (nil if not representable)
	Class string
}

func pvInt(i int64, lit string) PV {
	return PV{Lit: lit, V: VInt(i), HasV: true, F: &HV{Kind: "int", IntKind: "int64", I: i}, Class: "int"}
}
func pvFloat(f float64, lit string) PV {
	return PV{Lit: lit, V: VFloat(f), HasV: true, F: &HV{Kind: "f64", F: f}, Class: "float"}
}
func pvStr(s string) PV {
	return PV{Lit: fmt.Sprintf("%q", s), V: VStr(s), HasV: true, F: &HV{Kind: "str", S: s}, Class: "str"}
}

func valuePool(full bool) []PV {
	p := []PV{
		pvInt(0, "0"), pvInt(1, "1"), pvInt(-1, "-1"), pvInt(2, "2"), pvInt(3, "3"), pvInt(7, "7"),
		pvInt(65534, "65534"), pvInt(65535, "65535"), pvInt(9223372036854775807, "9223372036854775807"),
		pvInt(-9223372036854775808, ""),
		pvFloat(0, "0.0"), pvFloat(0.5, "0.5"), pvFloat(1, "1.0"), pvFloat(-1.5, "-1.5"), pvFloat(2.5, "2.5"), pvFloat(3, "3.0"),
		pvStr(""), pvStr("a"), pvStr("b"), pvStr("ab"), pvStr("A"), pvStr("é"), pvStr("9"), pvStr("10"),
		{Lit: "true", V: VBool(true), HasV: true, F: &HV{Kind: "bool", B: true}, Class: "bool"},
		{Lit: "false", V: VBool(false), HasV: true, F: &HV{Kind: "bool", B: false}, Class: "bool"},
		{Lit: "Missing", V: VNull(), HasV: true, F: nil, Class: "null"},
		{Lit: "[]", V: VArr(), HasV: true, F: &HV{Kind: "slice", ElemKind: "int", IntKind: "int"}, Class: "array"},
		{Lit: "[1]", V: VArr(VInt(1)), HasV: true, F: &HV{Kind: "slice", ElemKind: "int", IntKind: "int", Els: []HV{{Kind: "int", IntKind: "int", I: 1}}}, Class: "array"},
		{Lit: "[1, \"a\"]", V: VArr(VInt(1), VStr("a")), HasV: true, F: &HV{Kind: "slice", ElemKind: "iface", Els: []HV{{Kind: "int", IntKind: "int", I: 1}, {Kind: "str", S: "a"}}}, Class: "array"},
		{Lit: "{}", V: Val{Kind: "hash"}, HasV: true, F: &HV{Kind: "map", ElemIface: true, KeyKind: "str"}, Class: "hash"},
		{Lit: "{\"a\": 1}", V: Val{Kind: "hash", Keys: []Val{VStr("a")}, Vals: []Val{VInt(1)}}, HasV: true,
			F: &HV{Kind: "map", ElemIface: true, KeyKind: "str", Entries: [][2]HV{{{Kind: "str", S: "a"}, {Kind: "int", IntKind: "int", I: 1}}}}, Class: "hash"},
		{Lit: "/a/", V: Val{Kind: "regexp", S: "a"}, HasV: true, Class: "regexp"},
		{Lit: "/a*/", V: Val{Kind: "regexp", S: "a*"}, HasV: true, Class: "regexp"},
	}
	if full {
		p = append(p, pvInt(65536, "65536"), pvInt(-7, "-7"), pvInt(10, "10"), pvFloat(65535, "65535.0"), pvFloat(10000000000, "10000000000.0"),
			pvFloat(-0.25, "-0.25"), pvStr("B"), pvStr("aa"), pvStr("a b"), pvStr("日本"))
	}
	return p
}

var binaryOps = []string{"+", "-", "*", "/", "%", "**", "<", "<=", ">", ">=", "==", "!=", "&&", "||", "~=", "!~", "in", ".."}

// S-ops: every operator on every ordered pair of pool values, in three provenances.
func genOps(stream string, full bool, ops []string) []GenCase {
	pool := valuePool(full)
	var out []GenCase
	id := 0
	for _, op := range ops {
		for _, a := range pool {
			for _, b := range pool {
				if op == ".." && (a.Class == "int" && b.Class == "int") && (b.V.I-a.V.I > 100000 || b.V.I-a.V.I < -1) && b.V.I > a.V.I {
					continue // a range of billions: excluded by the property (memory)
				}
				if op == "**" && a.Class == "int" && b.Class == "int" && (b.V.I > 62 || b.V.I < -62) && (a.V.I > 1 || a.V.I < -1) {
					continue // float→int conversion of an out-of-range power is platform-defined
				}
				for prov := 0; prov < 3; prov++ {
					c := Case{ID: fmt.Sprintf("%s-%d", stream, id), Opt: id%2 == 0, Tags: []string{"op:" + op, a.Class + "×" + b.Class}}
					id++
					switch prov {
					case 0:
						if a.Lit == "" || b.Lit == "" {
							continue
						}
						c.Script = fmt.Sprintf("return %s %s %s;", a.Lit, op, b.Lit)
						c.Tags = append(c.Tags, "prov:literal")
						c.Runs = []Run{{Obj: HV{Kind: "nil"}, Polls: defaultPolls}}
					case 1:
						c.Script = fmt.Sprintf("return va %s vb;", op)
						c.AddVar("va", a.V)
						c.AddVar("vb", b.V)
						c.Tags = append(c.Tags, "prov:variable")
						c.Runs = []Run{{Obj: HV{Kind: "nil"}, Polls: defaultPolls}}
					case 2:
						if a.F == nil || b.F == nil {
							continue
						}
						c.Script = fmt.Sprintf("return FA %s FB;", op)
						c.Tags = append(c.Tags, "prov:field")
						c.Runs = []Run{{Obj: HV{Kind: "struct", Fields: []HField{{"FA", true, *a.F}, {"FB", true, *b.F}}}, Polls: defaultPolls}}
					}
					c.Show = []string{"spec"}
					out = append(out, GenCase{Case: c, Stream: stream, NonTrivial: true})
				}
			}
		}
	}
	// ** with integral exponents of both signs, integer and float bases: math.Pow's successive-squaring loop
	// (results beyond 2^53 are rounded the way that loop rounds them; negative exponents give 1/x^n)
	if len(ops) > 2 {
		for _, base := range []string{"2", "-2", "3", "-3", "7", "10", "-10", "1.5", "-2.5", "0.1", "10000000000.0", "0.00001", "65535", "1.0000001"} {
			for e := -70; e <= 70; e++ {
				if e%7 != 0 && e%5 != 0 && (e > 24 || e < -24) {
					continue
				}
				for _, es := range []string{fmt.Sprint(e), fmt.Sprintf("%d.0", e)} {
					c := Case{ID: fmt.Sprintf("%s-pow-%d", stream, id), Opt: id%2 == 0, Script: fmt.Sprintf("b = %s; e = %s; return [b ** e, %s ** %s];", base, es, base, es),
						Tags: []string{"op:**", "pow-sweep"}, Runs: []Run{{Obj: HV{Kind: "nil"}, Polls: defaultPolls}}, Show: []string{"spec"}}
					id++
					out = append(out, GenCase{Case: c, Stream: stream, NonTrivial: true})
				}
			}
		}
	}
	// operands written with leading zeros are decimal like any other integer literal
	if len(ops) > 2 {
		for _, p := range [][2]string{{"010 + 1", "11"}, {"0100 - 100", "0"}, {"007 * 2", "14"}, {"09 - 1", "8"}, {"08 + 08", "16"}, {"1 + 010 * 010", "101"}, {"-010", "-10"}, {"0100 / 010", "10"},
			{"0100 % 7", "2"}, {"[1, 2, 3, 4, 5, 6, 7, 8, 9, 10, 11][010]", "11"}, {"len(1..010)", "10"}, {"010 == 10 ? 1 : 2", "1"}, {"010 < 9 ? 1 : 2", "2"}} {
			c := Case{ID: fmt.Sprintf("%s-lz-%d", stream, id), Opt: id%2 == 0, Script: "return " + p[0] + ";", Tags: []string{"leading-zero-operand"},
				Runs: []Run{{Obj: HV{Kind: "nil"}, Polls: defaultPolls}}, Show: []string{"spec"}}
			id++
			out = append(out, GenCase{Case: c, Stream: stream, NonTrivial: true, Role: "expectint:" + p[1]})
		}
	}
	// unary operators and index
	for _, a := range pool {
		for _, u := range []string{"-", "!", "√"} {
			if a.Lit == "" {
				continue
			}
			c := Case{ID: fmt.Sprintf("%s-%d", stream, id), Opt: id%2 == 0, Script: fmt.Sprintf("return %s(%s);", u, a.Lit),
				Tags: []string{"unary:" + u, a.Class}, Runs: []Run{{Obj: HV{Kind: "nil"}, Polls: defaultPolls}}}
			id++
			out = append(out, GenCase{Case: c, Stream: stream, NonTrivial: true})
			c2 := Case{ID: fmt.Sprintf("%s-%d", stream, id), Opt: id%2 == 0, Script: fmt.Sprintf("return %sva;", u),
				Tags: []string{"unary:" + u, a.Class, "prov:variable"}, Runs: []Run{{Obj: HV{Kind: "nil"}, Polls: defaultPolls}}}
			c2.AddVar("va", a.V)
			id++
			out = append(out, GenCase{Case: c2, Stream: stream, NonTrivial: true})
		}
		for _, b := range pool {
			c := Case{ID: fmt.Sprintf("%s-%d", stream, id), Opt: id%2 == 0, Script: "return va[vb];",
				Tags: []string{"index", a.Class + "×" + b.Class}, Runs: []Run{{Obj: HV{Kind: "nil"}, Polls: defaultPolls}}}
			c.AddVar("va", a.V)
			c.AddVar("vb", b.V)
			id++
			out = append(out, GenCase{Case: c, Stream: stream, NonTrivial: true})
		}
	}
	return out
}

// S-expr: random expression trees
func genExprs(stream string, seed uint64, n int, chaos int) []GenCase {
	r := NewRng(seed)
	var out []GenCase
	for i := 0; i < n; i++ {
		g := newG(r.Fork())
		g.chaos = chaos
		e := g.expr("any", 2+g.r.Intn(3))
		c := Case{ID: fmt.Sprintf("%s-%d", stream, i), Script: "return " + e + ";", Opt: r.Bool(), Show: []string{"tokens", "ast", "code", "spec"},
			Fns: []HostFn{recFn()}, Tags: g.tagList(), Runs: []Run{{Obj: stdObject(r), Polls: defaultPolls}}}
		out = append(out, GenCase{Case: c, Stream: stream, NonTrivial: len(g.tags) >= 2})
	}
	return out
}

// ---------- S-truth (C05) ----------

type truthVal struct {
	expr  string // script text producing the value
	class string
	setup func(c *Case)
}

func truthValues() []truthVal {
	var out []truthVal
	lit := func(e, cl string) { out = append(out, truthVal{expr: e, class: "literal:" + cl}) }
	for _, e := range []string{"true", "false", "0", "1", "-1", "2", "255", "256", "257", "512", "1024", "4096", "32768", "65280", "65534", "65535", "65536", "70000", "131072", "4294967296", "-256", "256.0", "0.0", "0.5", "-0.5", "\"\"", "\"a\"", "\"0\"", "\"false\"",
		"\" \"", "\"  \"", "\"\\t\"", "\"\\n\"", "\" \\n \"", "\"null\"", "\"0.0\"", "' '",
		"[]", "[0]", "[1, 2]", "[[]]", "[\"\"]", "{}", "{\"a\": 0}", "{\"\": \"\"}", "/a/", "//", "Missing"} {
		lit(e, "v")
	}
	for _, e := range []string{"1 < 2", "2 < 1", "\"a\" == \"a\"", "1.5 != 1.5", "\"x\" ~= /x/", "\"x\" !~ /x/", "1 in [1]", "2 in [1]"} {
		out = append(out, truthVal{expr: "(" + e + ")", class: "comparison"})
	}
	fields := []struct {
		n  string
		hv HV
	}{
		{"FT", HV{Kind: "bool", B: true}}, {"FF", HV{Kind: "bool", B: false}}, {"FZ", HV{Kind: "int", IntKind: "int", I: 0}},
		{"FP", HV{Kind: "int", IntKind: "int", I: 5}}, {"FN", HV{Kind: "int", IntKind: "int", I: -5}}, {"FFZ", HV{Kind: "f64", F: 0}},
		{"FFP", HV{Kind: "f64", F: 0.25}}, {"FFN", HV{Kind: "f64", F: -0.25}}, {"FSE", HV{Kind: "str", S: ""}}, {"FSN", HV{Kind: "str", S: "x"}},
		{"FSB", HV{Kind: "str", S: " "}}, {"FST", HV{Kind: "str", S: "\t\n"}},
		{"FNaN", HV{Kind: "f64", F: math.NaN()}}, {"FPInf", HV{Kind: "f64", F: math.Inf(1)}}, {"FNInf", HV{Kind: "f64", F: math.Inf(-1)}}, {"FNZ", HV{Kind: "f64", F: math.Copysign(0, -1)}},
		{"FAE", HV{Kind: "slice", ElemKind: "int", IntKind: "int"}}, {"FAN", HV{Kind: "slice", ElemKind: "int", IntKind: "int", Els: []HV{{Kind: "int", IntKind: "int", I: 0}}}},
		{"FHE", HV{Kind: "map", ElemIface: true, KeyKind: "str"}},
		{"FHN", HV{Kind: "map", ElemIface: true, KeyKind: "str", Entries: [][2]HV{{{Kind: "str", S: "k"}, {Kind: "bool", B: false}}}}},
		{"FU", HV{Kind: "uint", U: 3}},
	}
	for _, f := range fields {
		out = append(out, truthVal{expr: f.n, class: "field"})
	}
	for _, e := range []string{"len(\"\")", "len(\"ab\")", "string(0)", "trim(\"  \")", "int(\"x\")", "between(1, 0, 2)", "between(5, 0, 2)", "match(\"a\", /a/)", "match(\"b\", /a/)",
		"split(\"\", \",\")", "keys({})", "min(0, 1)", "max(0.5, -1)", "lower(\"\")", "type(1)"} {
		out = append(out, truthVal{expr: e, class: "builtin"})
	}
	host := []struct {
		n string
		v Val
	}{{"hTrue", VBool(true)}, {"hFalse", VBool(false)}, {"hNull", VNull()}, {"hZero", VInt(0)}, {"hOne", VInt(1)}, {"hNeg", VFloat(-1)}, {"hEmpty", VStr("")}, {"hStr", VStr("s")}, {"hArr", VArr()}, {"hArr1", VArr(VBool(false))}}
	for _, h := range host {
		out = append(out, truthVal{expr: h.n + "()", class: "host"})
	}
	return out
}

func truthObject() HV {
	return HV{Kind: "struct", Fields: []HField{
		{"FT", true, HV{Kind: "bool", B: true}}, {"FF", true, HV{Kind: "bool", B: false}}, {"FZ", true, HV{Kind: "int", IntKind: "int", I: 0}},
		{"FP", true, HV{Kind: "int", IntKind: "int", I: 5}}, {"FN", true, HV{Kind: "int", IntKind: "int", I: -5}}, {"FFZ", true, HV{Kind: "f64", F: 0}},
		{"FFP", true, HV{Kind: "f64", F: 0.25}}, {"FFN", true, HV{Kind: "f64", F: -0.25}}, {"FSE", true, HV{Kind: "str", S: ""}}, {"FSN", true, HV{Kind: "str", S: "x"}},
		{"FAE", true, HV{Kind: "slice", ElemKind: "int", IntKind: "int"}}, {"FAN", true, HV{Kind: "slice", ElemKind: "int", IntKind: "int", Els: []HV{{Kind: "int", IntKind: "int", I: 0}}}},
		{"FHE", true, HV{Kind: "map", ElemIface: true, KeyKind: "str"}},
		{"FHN", true, HV{Kind: "map", ElemIface: true, KeyKind: "str", Entries: [][2]HV{{{Kind: "str", S: "k"}, {Kind: "bool", B: false}}}}},
		{"FU", true, HV{Kind: "uint", U: 3}},
		{"FSB", true, HV{Kind: "str", S: " "}}, {"FST", true, HV{Kind: "str", S: "\t\n"}},
		{"FNaN", true, HV{Kind: "f64", F: math.NaN()}}, {"FPInf", true, HV{Kind: "f64", F: math.Inf(1)}}, {"FNInf", true, HV{Kind: "f64", F: math.Inf(-1)}}, {"FNZ", true, HV{Kind: "f64", F: math.Copysign(0, -1)}},
	}}
}

func truthFns() []HostFn {
	return []HostFn{{Name: "hTrue", Kind: "const", V: VBool(true)}, {Name: "hFalse", Kind: "const", V: VBool(false)}, {Name: "hNull", Kind: "const", V: VNull()},
		{Name: "hZero", Kind: "const", V: VInt(0)}, {Name: "hOne", Kind: "const", V: VInt(1)}, {Name: "hNeg", Kind: "const", V: VFloat(-1)},
		{Name: "hEmpty", Kind: "const", V: VStr("")}, {Name: "hStr", Kind: "const", V: VStr("s")}, {Name: "hArr", Kind: "const", V: VArr()},
		{Name: "hArr1", Kind: "const", V: VArr(VBool(false))}, recFn()}
}

var truthPositions = []struct{ name, tmpl string }{
	{"if", "if (%s) { return true; } return false;"},
	{"while", "n = 0; while (%s) { n = n + 1; if (n > 0) { return true; } } return false;"},
	{"ternary", "return %s ? true : false;"},
	{"and-left", "return %s && true;"},
	{"and-right", "return true && %s;"},
	{"or-left", "return %s || false;"},
	{"or-right", "return false || %s;"},
	{"verdict", "return %s;"},
	{"not-not", "return !(%s) == false;"}, // only meaningful for booleans; compared with the model, not across positions
}

func genTruth(stream string) []GenCase {
	var out []GenCase
	vals := truthValues()
	id := 0
	for vi, v := range vals {
		for _, p := range truthPositions {
			c := Case{ID: fmt.Sprintf("%s-%d", stream, id), Script: fmt.Sprintf(p.tmpl, v.expr), Opt: id%2 == 0, Fns: truthFns(), Show: []string{"spec"},
				Tags: []string{"pos:" + p.name, v.class}, Runs: []Run{{Obj: truthObject(), Polls: defaultPolls}}}
			id++
			if p.name == "verdict" {
				c.Show = append(c.Show, "runbool") // the boolean Run hands to the host is one more position of the same rule
			}
			gc := GenCase{Case: c, Stream: stream, NonTrivial: true}
			if p.name != "not-not" {
				gc.Pair = fmt.Sprintf("truth-%d", vi)
				gc.Role = p.name
			}
			out = append(out, gc)
		}
		// the `!` operator itself
		c := Case{ID: fmt.Sprintf("%s-%d", stream, id), Script: "return !" + v.expr + ";", Opt: id%2 == 0, Fns: truthFns(), Show: []string{"spec"},
			Tags: []string{"pos:bang", v.class}, Runs: []Run{{Obj: truthObject(), Polls: defaultPolls}}}
		id++
		out = append(out, GenCase{Case: c, Stream: stream, NonTrivial: true})
	}
	// all ordered pairs under && and ||
	for ai, a := range vals {
		for bi, b := range vals {
			if (ai*31+bi)%3 != 0 && !(a.class != "literal:v" || b.class != "literal:v") {
				continue
			}
			for _, op := range []string{"&&", "||"} {
				c := Case{ID: fmt.Sprintf("%s-%d", stream, id), Script: fmt.Sprintf("return %s %s %s;", a.expr, op, b.expr), Opt: id%2 == 0, Fns: truthFns(),
					Tags: []string{"pair:" + op, a.class + "×" + b.class}, Runs: []Run{{Obj: truthObject(), Polls: defaultPolls}}}
				id++
				out = append(out, GenCase{Case: c, Stream: stream, NonTrivial: true, Pair: fmt.Sprintf("pair-%d-%d-%s", ai, bi, op), Role: "pair"})
			}
		}
	}
	return out
}

// ---------- S-cont (C16) ----------

func genContainers(stream string, seed uint64, n int) []GenCase {
	r := NewRng(seed)
	var out []GenCase
	id := 0
	add := func(script string, tags ...string) {
		c := Case{ID: fmt.Sprintf("%s-%d", stream, id), Script: script, Opt: id%2 == 0, Fns: []HostFn{recFn()}, Tags: tags,
			Runs: []Run{{Obj: stdObject(r), Polls: defaultPolls}}}
		id++
		out = append(out, GenCase{Case: c, Stream: stream, NonTrivial: true})
	}
	arrays := []string{"[]", "[7]", "[1, 2, 3]", "[\"a\", 2, 3.5, true, [1], {\"k\": 1}]", "(0..4)", "(3..3)", "Tags", "Nums", "split(\"a,b,c\", \",\")"}
	strs := []string{"\"\"", "\"a\"", "\"hello\"", "\"héllo wörld\"", "\"日本語\"", "Name"}
	idxs := []string{"-3", "-1", "0", "1", "2", "3", "4", "5", "6", "7", "10", "11", "12", "9223372036854775807", "65535", "1.0", "\"0\"", "true", "Missing"}
	for _, a := range arrays {
		for _, i := range idxs {
			add("return "+a+"["+i+"];", "array-index")
		}
		add("return len("+a+");", "len")
		add("n = 0; out = []; foreach i, v in "+a+" { n = n + 1; rec(i, v); } return n;", "iterate-array")
		add("return [0 in "+a+", 2 in "+a+", \"a\" in "+a+", 3.5 in "+a+", 7 in "+a+"];", "in-array")
	}
	for _, s := range strs {
		for _, i := range idxs {
			add("return "+s+"["+i+"];", "string-index")
		}
		add("return len("+s+");", "len")
		add("n = 0; foreach i, ch in "+s+" { n = n + 1; rec(i, ch); } return n;", "iterate-string")
		add("return [\"l\" in "+s+", \"\" in "+s+", \"é\" in "+s+", \"zz\" in "+s+"];", "in-string")
	}
	hashes := []string{"{0.1234567: \"a\", 0.1234568: \"b\"}", "{0.0000001: \"x\", 0.0000002: \"y\", 0.1: \"z\"}", "{100000.5: 1, 100000.25: 2, 1e3: 3}", "{9007199254740993: \"big\", 9007199254740992: \"even\"}",
		"{\"A\": 1, \"a\": 2, \" a\": 3, \"a \": 4}", "{true: 1, \"true\": 2}", "{}", "{\"a\": 1}", "{\"b\": 2, \"a\": 1, \"c\": [3]}", "{1: \"int\", \"1\": \"str\", 1.0: \"float\"}", "{1.5: \"f\", \"1.5\": \"s\"}", "{2: 0, 10: 1, \"10\": 2, \"2\": 3}", "{\"k\": {\"n\": 1}}"}
	keys := []string{"0.1234567", "0.1234568", "0.1234569", "0.123457", "0.0000001", "0.0000002", "0.0", "100000.5", "100000.25", "1000", "1000.0", "9007199254740993", "9007199254740992", "\"A\"", "\" a\"", "true", "\"true\"", "\"a\"", "\"b\"", "\"zz\"", "1", "\"1\"", "1.0", "1.5", "\"1.5\"", "2", "10", "\"10\"", "0", "true", "[1]", "Missing", "\"k\""}
	for _, h := range hashes {
		for _, k := range keys {
			add("return "+h+"["+k+"];", "hash-index")
		}
		add("return [len("+h+"), keys("+h+")];", "hash-keys")
		add("return "+h+";", "hash-print")
		add("n = 0; foreach k, v in "+h+" { n = n + 1; rec(k, v); } return n;", "iterate-hash")
		add("h = "+h+"; return h.a;", "hash-dot")
	}
	for _, rg := range []string{"0..0", "0..3", "-2..2", "3..1", "1..1.5", "\"a\"..3", "1..\"b\"", "Count..3", "65534..65537"} {
		add("return "+rg+";", "range")
		add("n = 0; foreach v in "+rg+" { n = n + v; } return n;", "iterate-range")
	}
	// nested iteration over the same container, recursion over it
	add("xs = [1, 2, 3]; n = 0; foreach a in xs { foreach b in xs { n = n + 1; } } return n;", "nested-same-array")
	add("s = \"abc\"; n = 0; foreach a in s { foreach b in s { n = n + 1; } } return n;", "nested-same-string")
	add("h = {\"a\": 1, \"b\": 2}; n = 0; foreach k, v in h { foreach k2, v2 in h { n = n + v2; } } return n;", "nested-same-hash")
	add("n = 0; foreach a in [1, 2] { foreach b in [1, 2] { n = n + 1; } } return n;", "nested-same-literal")
	add("function walk(xs, d) { local n; n = 0; foreach x in xs { n = n + 1; if (d > 0) { n = n + walk(xs, d - 1); } } return n; } return walk([1, 2], 2);", "recursive-iteration")
	for i := 0; i < n; i++ {
		g := newG(r.Fork())
		a := g.expr("array", 2)
		add("xs = "+a+"; n = 0; foreach i, v in xs { n = n + 1; rec(i, v); } return [n, len(xs), xs[0], xs[len(xs) - 1], xs[len(xs)]];", "random-array")
	}
	return out
}
