package main

import "math"

func floatBits(f float64) uint64 { return math.Float64bits(f) }

// splitmix64: every random choice in the harness derives from one seed.
type Rng struct{ s uint64 }

func NewRng(seed uint64) *Rng { return &Rng{s: seed} }
func (r *Rng) Next() uint64 {
	r.s += 0x9e3779b97f4a7c15
	z := r.s
	z = (z ^ (z >> 30)) * 0xbf58476d1ce4e5b9
	z = (z ^ (z >> 27)) * 0x94d049bb133111eb
	return z ^ (z >> 31)
}
func (r *Rng) Intn(n int) int {
	if n <= 0 {
		return 0
	}
	return int(r.Next() % uint64(n))
}
func (r *Rng) Bool() bool         { return r.Next()&1 == 1 }
func (r *Rng) Chance(p int) bool  { return r.Intn(100) < p }
func (r *Rng) Fork() *Rng         { return NewRng(r.Next()) }
func Pick[T any](r *Rng, xs []T) T { return xs[r.Intn(len(xs))] }
